"""C16 — number/text conversion is lossless; numeric parsing is total and range-checked."""
from .numgen import *

THEOREMS = [
    "BSVerif.Props.C16.int_roundtrip",
    "BSVerif.Props.C16.int_roundtrip_wide",
    "BSVerif.Props.C16.print_canonical",
    "BSVerif.Props.C16.print_fits_buffer",
    "BSVerif.Props.C16.parse_total",
    "BSVerif.Props.C16.parse_value_sound",
    "BSVerif.Props.C16.parse_width_independent_ascii",
    "BSVerif.Props.C16.parse_width_independent",
    "BSVerif.Props.C16.unsigned_rejects_minus",
    "BSVerif.Props.C16.bool_parse_total",
    "BSVerif.Props.C16.bool_roundtrip",
    "BSVerif.Props.C16.bool_literals",
    "BSVerif.Props.C16.consts_default_marks",
]
RULE = ("num.print/num.parse over every value of the 8-bit types x 4 string widths (quick) and of the 16-bit types (thorough), limits +-2 and "
        "+-2^k+-1 and random values of the 32/64-bit types; strings from a numeric-literal grammar (leading blanks, signs, leading zeros, "
        "overlong digit runs, fractions, exponents, trailing text, non-ASCII units, embedded NUL, lone surrogates) x 9 integer types x 4 widths; "
        "bool literals 0/1/true/false in every letter case with prefixes/suffixes; float/double bit patterns through print, parse and "
        "print-then-parse (bit-identical round trip, shortest text), plus implementation-side round-trip sweeps (num.frtsweep: random 2^16 blocks in quick; "
        "ALL 2^32 float bit patterns and 256 random 2^20 blocks of doubles in thorough); non-trivial = answer is not `err invalid_argument`; distinct = distinct op lines")
EXHAUSTIVE = {"quick": False, "thorough": False}
ASSUMPTIONS = [
    "libstdc++ std::from_chars / std::to_chars conform to [charconv] (integer: modelled as fromCharsInt/toCharsInt; floating: the exact-arithmetic "
    "reference BSVerif/Num/FloatText.lean) — tested by the correspondence run and by num.frt / num.frtsweep on the implementation's own answers",
    "std::isdigit(int) is compiled to the range test '0'..'9' (gcc folds it at every optimisation level); for code units > 255 the C standard "
    "leaves the call undefined (latent, NOTES.md)",
    "wchar_t is 32 bits wide (Linux)",
]
TRUSTED = ["exact-arithmetic decimal<->binary reference BSVerif/Num/FloatText.lean (shortest round-trip printing per [charconv.to.chars])"]
OP_TIMEOUT = 120.0


def nontrivial(op, impl):
    return impl != "err invalid_argument"


BLANKS = ["", "", "", " ", "\t", "  \t ", " \t\t  "]
TRAIL = ["", "", "", " ", "  ", "x", ",", ".", "..", ".x", ".5", ".0", ". 5", "e5", "e+5", "E-2", "-", "--1", "\n", "\x00", "\x001", "é", "٠",
         "１", "€", "_000"]


def limit_texts(t):
    lo, hi = rng_of(t)
    out = []
    for b in (lo, hi, 0):
        for d in (-2, -1, 0, 1, 2):
            out.append(str(b + d))
    out += [str(hi * 10), str(hi * 10 + 9), str(lo * 10), str(hi + 1) + "0", "1" + "0" * 25, "-1" + "0" * 25, "9" * 30, "-" + "9" * 30]
    return out


def wide_units(rng, w, s):
    """encode a python string as code units of width w (8: UTF-8 bytes; 16: UTF-16; 32: code points)"""
    if w == "8":
        return list(s.encode("utf-8", "surrogatepass"))
    if w == "16":
        b = s.encode("utf-16-le", "surrogatepass")
        return [b[i] | (b[i + 1] << 8) for i in range(0, len(b), 2)]
    return [ord(c) for c in s]


def int_text_cases(rng, t, n):
    out = []
    lims = limit_texts(t)
    for _ in range(n):
        r = rng.random()
        if r < 0.35:
            body = rng.choice(lims)
        elif r < 0.6:
            body = str(rand_int(rng))
        elif r < 0.7:
            body = rng.choice(["", "-", "+", "+1", "- 1", "-+1", ".", ".5", "-.5", "0x1f", "abc", "--5", "-0", "-00", "−1"])
        else:
            lo, hi = rng_of(t)
            body = str(rng.randint(lo - 3, hi + 3))
        if rng.random() < 0.25 and body and body.lstrip("-").isdigit():
            sign = "-" if body.startswith("-") else ""
            body = sign + "0" * rng.choice([1, 2, 5, 30]) + body.lstrip("-")
        out.append(rng.choice(BLANKS) + body + rng.choice(TRAIL))
    return out


def float_text_cases(rng, n):
    out = ["0", "-0", "0.0", "1", "1.5", "-1.5", ".5", "5.", "-.5", "1e5", "1E5", "1e+5", "1e-5", "1e", "1e+", "1.e5", "e5", ".e5", ".", "-", "+1",
           "inf", "-inf", "INF", "Infinity", "-INFINITY", "infinit", "nan", "NaN", "-nan", "nan(1)", "nan(abc_9)", "nan(", "nan(x y)", "nanx",
           "1e38", "3.4028235e38", "3.4028236e38", "3.4028235677973366e38", "3.4028235677973367e38", "1e39", "-1e39", "1e308", "1.7976931348623157e308",
           "1.7976931348623158e308", "1.7976931348623159e308", "1e309", "-1e309", "1e400", "1e99999999999999999999", "1e-99999999999999999999",
           "0e99999999999999999999", "1e-45", "1.4e-45", "7e-46", "7.1e-46", "7.006492321624085e-46", "7.006492321624086e-46", "1e-46", "4.9e-324",
           "5e-324", "2.4703282292062327e-324", "2.4703282292062328e-324", "2.5e-324", "1e-324", "2.2250738585072014e-308", "2.2250738585072011e-308",
           "1.17549435e-38", "1.1754942e-38", "0x1p3", "0x10", "1_000", "1,5", "16777217", "16777216", "16777218", "9007199254740993",
           "9007199254740992", "9007199254740994", "0." + "0" * 40 + "1", "1" + "0" * 40, "0" * 50 + "1.5", "1." + "0" * 50 + "1",
           "1.00000000000000011102230246251565404236316680908203125", "1.00000000000000011102230246251565404236316680908203124",
           "1.00000000000000011102230246251565404236316680908203126", "8.5e-46", "2e-45", "2.1e-45", "2.2e-45"]
    for _ in range(n):
        digs = "".join(rng.choice("0123456789") for _ in range(rng.choice([1, 1, 2, 3, 7, 8, 9, 15, 16, 17, 18, 25])))
        frac = "".join(rng.choice("0123456789") for _ in range(rng.choice([0, 0, 1, 2, 5, 9, 17, 20])))
        s = rng.choice(["", "", "-"]) + digs + ("." + frac if (frac or rng.random() < 0.1) else "")
        if rng.random() < 0.5:
            s += rng.choice("eE") + rng.choice(["", "+", "-"]) + str(rng.choice([0, 1, 5, 10, 22, 23, 37, 38, 39, 45, 46, 300, 307, 308, 309, 323, 324, 325, 400]))
        out.append(rng.choice(BLANKS) + s + rng.choice(TRAIL))
    return out


BOOL_WORDS = ["true", "false", "True", "FALSE", "tRuE", "fAlSe", "tru", "fals", "truefalse", "falsetrue", "t", "f", "yes", "no", "on", "off",
              "0", "1", "2", "9", "00", "01", "10", "11", "000", "001", "1x", "0x", "1.5", "0.5", "-1", "-0", "+1", "1 ", "0\t", "1\x00", "\x001",
              "1é", "trueé", "étrue", "truе", "ＴＲＵＥ", "１", "1" + "0" * 30, ""]


def gen(tier, rng, boost=1):
    ops = []
    # ---- integers -> text -> integers: every value of the 8-bit types x 4 widths
    small = ["i8", "u8", "char"] + (["i16", "u16"] if tier == "thorough" else [])
    for t in small:
        lo, hi = rng_of(t)
        for v in range(lo, hi + 1):
            for w in (WIDTHS if hi < 256 else [rng.choice(WIDTHS)]):
                ops.append(f"num.print {t} {w} {v}")
                ops.append(f"num.parse {t} {w} {units(w, ustr(str(v)))}")
    for v in (0, 1):
        for w in WIDTHS:
            ops.append(f"num.print bool {w} {v}")
    bnd = boundary_ints()
    for t in TEXT_TYPES:
        lo, hi = rng_of(t)
        vals = [v for v in bnd if lo <= v <= hi]
        vals += [rng.randint(lo, hi) for _ in range((150 if tier == "quick" else 5000) * boost)]
        for v in vals:
            w = rng.choice(WIDTHS)
            w2 = rng.choice(WIDTHS)
            ops.append(f"num.print {t} {w} {v}")
            ops.append(f"num.parse {t} {w2} {units(w2, ustr(str(v)))}")
    # ---- every integer type x literal grammar x widths
    n = (400 if tier == "quick" else 12000) * boost
    for t in TEXT_TYPES:
        for s in int_text_cases(rng, t, n):
            w = rng.choice(WIDTHS)
            ops.append(f"num.parse {t} {w} {units(w, wide_units(rng, w, s))}")
        # limits in all four widths (width independence on the same text)
        for s in limit_texts(t)[:15]:
            for w in WIDTHS:
                ops.append(f"num.parse {t} {w} {units(w, wide_units(rng, w, ' ' + s + ' '))}")
    # ill-formed wide input around a literal: lone surrogates, out-of-range UTF-32 units, truncated pair
    for t in ("i32", "u8", "i64"):
        for pre in ([], [0x20]):
            for lit in ("12", "-7", "300", "1.5", "1."):
                for bad16 in ([0xD800], [0xDC00], [0xD800, 0x31], [0xDC00, 0x35], [0xD800, 0xDC00], [0xDBFF]):
                    ops.append(f"num.parse {t} 16 {units('16', pre + ustr(lit) + bad16)}")
                    ops.append(f"num.parse {t} 16 {units('16', pre + bad16 + ustr(lit))}")
                for bad32 in ([0xD800], [0x110000], [0xFFFFFFFF], [0x80000030], [0x130], [0x10FFFF, 0x35]):
                    ops.append(f"num.parse {t} 32 {units('32', pre + ustr(lit) + bad32)}")
                    ops.append(f"num.parse {t} w {units('w', pre + bad32 + ustr(lit))}")
    # wide characters whose LOW BYTE is a syntactically significant ASCII character (blank, sign, dot, exponent, digit, t/f):
    # a parser that narrows 16/32-bit units to char sees them as syntax; they must end / invalidate the literal instead
    sig = [0x20, 0x09, 0x2B, 0x2D, 0x2E, 0x65, 0x45, 0x30, 0x31, 0x35, 0x39, 0x74, 0x54, 0x66]
    for b in sig:
        for hi in (0x100, 0x2000, 0x3000, 0xFF00, 0x10000, 0x10FF00):
            u = hi + b
            for t in ("i32", "u8", "f64"):
                for lit in ("12", "-7", "1.5"):
                    for units_ in ([u] + [ord(c) for c in lit], [ord(lit[0]), u] + [ord(c) for c in lit[1:]], [ord(c) for c in lit] + [u],
                                   [0x20, u] + [ord(c) for c in lit]):
                        if u < 0x10000:
                            ops.append(f"num.parse {t} 16 {units('16', units_)}")
                        ops.append(f"num.parse {t} {rng.choice(['32', 'w'])} {units('32', units_)}")
            for wd in ("1", "true", "0"):
                us = [ord(c) for c in wd]
                for units_ in ([u] + us, us + [u], [0x20, u] + us):
                    if u < 0x10000:
                        ops.append(f"num.bool 16 {units('16', units_)}")
                    ops.append(f"num.bool {rng.choice(['32', 'w'])} {units('32', units_)}")
    for word in ("true", "false", "TRUE", "False"):
        for pos in range(len(word)):
            for hi in (0x100, 0x400, 0x2000, 0x10100):
                us = [ord(c) for c in word]
                us[pos] = hi + (us[pos] & 0xFF)
                if us[pos] < 0x10000:
                    ops.append(f"num.bool 16 {units('16', us)}")
                ops.append(f"num.bool {rng.choice(['32', 'w'])} {units('32', us)}")
    # overlong literals (beyond any fixed-size scratch buffer: 63..70, 130, 400 characters) in all four widths
    for n in (62, 63, 64, 65, 66, 70, 130, 400):
        long_cases = ["0" * n + "7", "1" + "0" * n, "0" * (n - 5) + "65536", "0" * (n - 3) + "255", "7" + "0" * (n // 2) + "." + "5" * (n // 2),
                      "0" * n + ".5", " " * 3 + "0" * n + "9", "-" + "0" * n + "1", "0." + "0" * n + "1", "1" + "0" * n + "e-" + str(n)]
        for lit in long_cases:
            for t in ("i32", "u16", "u8", "i64", "f64", "f32"):
                for w in WIDTHS:
                    ops.append(f"num.parse {t} {w} {units(w, ustr(lit))}")
    # leading blanks before a fractional literal for an integer target (the fraction rule must not depend on the blanks)
    for bl in (" ", "\t", "  ", " \t ", "     "):
        for lit in ("3.5", "-12.25", "200.75", "0.0", "7.", "7.x", "1.e5"):
            for t in ("i32", "u8", "i8", "u64"):
                for w in WIDTHS:
                    ops.append(f"num.parse {t} {w} {units(w, ustr(bl + lit + rng.choice(['', ' ', '  '])))}")
    # ---- bool
    for wd in BOOL_WORDS:
        for b in ("", " ", "\t ", "  "):
            for tr in ("", " ", "x", "1", ","):
                w = rng.choice(WIDTHS)
                ops.append(f"num.bool {w} {units(w, wide_units(rng, w, b + wd + tr))}")
    for word in ("true", "false"):                       # every letter-case combination
        for mask in range(1 << len(word)):
            s = "".join(c.upper() if (mask >> i) & 1 else c for i, c in enumerate(word))
            for w in WIDTHS:
                ops.append(f"num.bool {w} {units(w, ustr(s))}")
    for u in (0x30, 0x31, 0x39, 0x130, 0xFF10, 0xFF11, 0x10030, 0x80000031, 0xFFFFFFFF, 0x7FFFFFFF, 0xFFFFFF30):
        if u < 0x10000:
            ops.append(f"num.bool 16 {units('16', [u])}")
            ops.append(f"num.bool 16 {units('16', [0x31, u])}")
        ops.append(f"num.bool 32 {units('32', [u])}")
        ops.append(f"num.bool w {units('w', [0x31, u])}")
    # ---- floating point: print, parse, print-then-parse
    fl = [("f32", b) for b in F32_SPECIAL] + [("f64", b) for b in F64_SPECIAL]
    for _ in range((1200 if tier == "quick" else 40000) * boost):
        t = rng.choice(["f32", "f64"])
        fl.append((t, rand_float_bits(rng, t)))
    for t, b in fl:
        w = rng.choice(WIDTHS)
        ops.append(f"num.frt {t} {w} {fhex(t, b)}")
        if rng.random() < 0.3:
            ops.append(f"num.print {t} {rng.choice(WIDTHS)} {fhex(t, b)}")
    for s in float_text_cases(rng, (500 if tier == "quick" else 15000) * boost):
        for t in ("f32", "f64"):
            w = rng.choice(WIDTHS)
            ops.append(f"num.parse {t} {w} {units(w, wide_units(rng, w, s))}")
    # implementation-side sweep of the round trip (test of the libstdc++ assumption on its own answers);
    # the long-running sweep ops are spread evenly over the op list (the runner splits it into contiguous chunks)
    sweeps = []
    if tier == "thorough":
        step = 1 << 22
        for lo in range(0, 1 << 32, step):                      # every one of the 2^32 float bit patterns
            sweeps.append(f"num.frtsweep f32 8 {lo:08x} {lo + step - 1:08x} 1")
        for _ in range(256):
            lo = rng.getrandbits(64) & ~((1 << 20) - 1)
            sweeps.append(f"num.frtsweep f64 8 {lo:016x} {lo + (1 << 20) - 1:016x} 1")
    else:
        for _ in range(16):
            lo = rng.getrandbits(32) & ~((1 << 16) - 1)
            sweeps.append(f"num.frtsweep f32 8 {lo:08x} {lo + (1 << 16) - 1:08x} 1")
            lo = rng.getrandbits(64) & ~((1 << 16) - 1)
            sweeps.append(f"num.frtsweep f64 8 {lo:016x} {lo + (1 << 16) - 1:016x} 1")
    gap = max(1, len(ops) // (len(sweeps) + 1))
    out = []
    k = 0
    for i, op in enumerate(ops):
        out.append(op)
        if (i + 1) % gap == 0 and k < len(sweeps):
            out.append(sweeps[k])
            k += 1
    out += sweeps[k:]
    return out
