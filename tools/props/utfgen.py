"""Shared generators for the UTF ops (C11, C12, C13)."""
WIDTHS = (8, 16, 32)
BOUNDARY = [0x0, 0x1, 0x41, 0x7F, 0x80, 0x7FF, 0x800, 0xFFF, 0x1000, 0xD7FF, 0xE000, 0xFEFF, 0xFFFD, 0xFFFE, 0xFFFF,
            0x10000, 0x10001, 0x1F600, 0xFFFFF, 0x100000, 0x10FFFE, 0x10FFFF, 0x2610]


def is_scalar(c):
    return 0 <= c < 0x110000 and not (0xD800 <= c <= 0xDFFF)


def rand_scalar(rng):
    k = rng.random()
    if k < 0.2:
        return rng.choice(BOUNDARY)
    if k < 0.4:
        return rng.randrange(0, 0x80)
    if k < 0.55:
        return rng.randrange(0x80, 0x800)
    if k < 0.8:
        c = rng.randrange(0x800, 0x10000)
        return c if is_scalar(c) else 0xE000 + (c & 0xFF)
    return rng.randrange(0x10000, 0x110000)


def enc8(c):
    if c < 0x80:
        return [c]
    if c < 0x800:
        return [0xC0 | c >> 6, 0x80 | c & 0x3F]
    if c < 0x10000:
        return [0xE0 | c >> 12, 0x80 | (c >> 6) & 0x3F, 0x80 | c & 0x3F]
    return [0xF0 | c >> 18, 0x80 | (c >> 12) & 0x3F, 0x80 | (c >> 6) & 0x3F, 0x80 | c & 0x3F]


def enc16(c):
    if c < 0x10000:
        return [c]
    c -= 0x10000
    return [0xD800 | c >> 10, 0xDC00 | c & 0x3FF]


def enc(w, c):
    return enc8(c) if w == 8 else enc16(c) if w == 16 else [c]


def encs(w, t):
    out = []
    for c in t:
        out += enc(w, c)
    return out


def units(w, l):
    if not l:
        return "-"
    n = w // 4
    return ".".join(format(u, "0%dx" % n) for u in l)


def rev(w, u):
    return int.from_bytes(u.to_bytes(w // 8, "little"), "big")


MARKS = {8: [None, [0x3F], [0xE2, 0x98, 0x90], [], [0x3C, 0x45, 0x3E]],
         16: [None, [0x3F], [0x2610], [], [0xD83D, 0xDE00]],
         32: [None, [0x3F], [0x2610], [], [0x1F600, 0x21]]}


def mark_tok(w, m):
    return "null" if m is None else units(w, m)
