"""C02 — no input can crash, hang, or exhaust the loader or the string converters."""
from .docgen import *

THEOREMS = [
    "BSVerif.Props.C12.transcode_in_bounds",
    "BSVerif.Props.C13.readChunk_progress",
    "BSVerif.Props.C13.readAll_terminates",
    "BSVerif.Props.C05.reader_skip_total",
    "BSVerif.Props.C05.reader_skip_rejects",
    "BSVerif.Props.C07.truncation_rejected",
    "BSVerif.Props.C16.parse_total",
    "BSVerif.Props.C16.bool_parse_total",
    "BSVerif.Props.C09.reader_conforms",
    "BSVerif.Props.C10.readSolidBlock_refines",
    "BSVerif.Props.C10.history_refines",
    "BSVerif.Props.C20.dtors_cannot_let_exceptions_escape",
    "BSVerif.Props.C20.no_terminate",
    "BSVerif.Props.C02.depth_unbounded_refuted",
    "BSVerif.Props.C02.prealloc_unbounded_refuted",
]
RULE = ("LoadObject of structure-aware mutations (bit flips, truncations, insertions, deletions, repetitions) of valid MsgPack/JSON/XML/CSV "
        "documents and of arbitrary bytes, from memory and streams, into scalar, string, container, map and class targets under all four "
        "policy settings, run under ASan+UBSan with a per-op time limit; malformed inputs of the converters (numeric/bool text in three widths, "
        "ill-formed UTF units, truncated encoded streams, corrupted MsgPack tokens) reused from the generators of C16/C12/C13/C07; "
        "acceptable outcomes: completion or an std::exception; non-trivial = the input is not a valid document (outcome exc:*); "
        "distinct = distinct op lines")
EXHAUSTIVE = {"quick": False, "thorough": False}
ASSUMPTIONS = ["RapidJSON and pugixml parsers are exercised under sanitizers, not modelled or proved (third-party code)",
               "memory: ASan max_allocation_size_mb=2048 stands in for 'out of proportion to the input'",
               "misaligned loads (reinterpret_cast in GetValue/DetectEncoding) are excluded from the UBSan run (-fno-sanitize=alignment): x86-64 tolerates them"]
TRUSTED = ["harness/ops_load.cpp"]
OP_TIMEOUT = 20.0


def adjust_verdict(op, impl, verdict):
    """ops borrowed from other properties are judged here only for C02's own question: did the call terminate
    normally or with an exception? (their value-level verdicts belong to C07/C12/C13/C16)"""
    if op.startswith("load.any"):
        return verdict
    if op.startswith("iso.") and verdict.startswith("known:chrono-int64-limit-ub"):
        return verdict                      # signed overflow next to the int64 limits: recorded (C15), also a C02 matter
    if impl.startswith("crash:") or impl in ("terminate", "timeout") or "H" in (impl.split(" ")[1:2] or [""])[0:1]:
        return "bad:" + impl.replace(" ", "_")
    return "ok"


def nontrivial(op, impl):
    return impl.startswith("exc:") or impl.startswith("err") or " end " in impl or " invalid " in impl


def gen(tier, rng, boost=1):
    ops = []
    q = tier == "quick"
    n = (120 if q else 3000) * boost
    pols = [("throw", "throw"), ("skip", "skip"), ("throw", "skip"), ("skip", "throw")]
    for archive in ("mp", "json", "xml", "csv"):
        for _ in range(n):
            target = rng.choice(LOAD_TARGETS[archive])
            docTarget = target if rng.random() < 0.8 else rng.choice(LOAD_TARGETS[archive])     # sometimes a document of another shape
            doc = encode(archive, docTarget, value_for(rng, docTarget))
            for _ in range(rng.choice([0, 1, 1, 2, 3])):
                doc = mutate(rng, doc)
            ovf, mis = rng.choice(pols)
            src = rng.choice(["mem", "stream"])
            ops.append(f"load.any {archive} {src} {target} {ovf} {mis} {hexb(doc)}")
    # adversarial MsgPack shapes: declared counts far beyond the input, moderate and deep nesting
    for target in ("vi", "vs", "vvi", "msi", "outer", "str"):
        for src in ("mem", "stream"):
            ops.append(f"load.any mp {src} {target} throw throw {hexb([0xDC, 0xFF, 0xFF])}")
            ops.append(f"load.any mp {src} {target} skip skip {hexb([0xDE, 0xFF, 0xFF, 0xA1, 0x61])}")
            ops.append(f"load.any mp {src} {target} skip skip {hexb([0x91] * 500 + [0x01])}")
            ops.append(f"load.any mp {src} {target} skip skip {hexb([0xDB, 0x7F, 0xFF, 0xFF, 0xFF, 0x41])}")
            ops.append(f"load.any mp {src} {target} skip skip {hexb([0xC6, 0x7F, 0xFF, 0xFF, 0xFF, 0x41])}")
    # declared lengths far beyond the document, with the first payload bytes present (str 32 / bin 32 / str 16 …), every target, both sources
    for target in LOAD_TARGETS["mp"]:
        for src in ("mem", "stream"):
            for d in ([0xDB, 0x40, 0, 0, 0, 0x61, 0x62, 0x63], [0xC6, 0x40, 0, 0, 0, 1, 2, 3], [0xDB, 0x7F, 0xFF, 0xFF, 0xF0, 0x61], [0xDA, 0xFF, 0xFF, 0x61],
                      [0x81, 0xDB, 0x40, 0, 0, 0, 0x61], [0x91, 0xDB, 0x20, 0, 0, 0, 0x61, 0x62], [0xDD, 0, 0x40, 0, 0, 1, 2], [0xDF, 0, 0x40, 0, 0, 0xA1, 0x61, 1]):
                ops.append(f"load.any mp {src} {target} skip skip {hexb(d)}")
    # the two recorded resource findings (witnesses)
    ops.append(f"load.any mp mem vi throw throw {hexb([0xDD, 0xFF, 0xFF, 0xFF, 0xFF])}")
    ops.append(f"load.any mp mem i32 skip skip {hexb([0x91] * (300000 if q else 2000000))}")
    # malformed converter inputs from the other generators
    from . import C16, C12, C13, C07
    import random as _r
    for mod, take in ((C16, 1500), (C12, 1500), (C13, 600), (C07, 1500)):
        sub = mod.gen("quick", _r.Random(rng.randrange(10 ** 9)), 1)
        rng.shuffle(sub)
        ops += sub[: take if q else take * 6]
        if mod is C16:
            # every 8-bit text that ends right after a sign, a dot or an exponent mark: the parsers look AHEAD at these places, and the
            # harness also hands the text over in a heap block of exactly its size (a look past the end is an ASan report)
            ops += [o for o in sub[take if q else take * 6:] if o.startswith(("num.parse", "num.bool")) and " 8 " in o
                    and o.rsplit(".", 1)[-1].rsplit(" ", 1)[-1] in ("2e", "2d", "2b", "65", "45")]
    # ISO-8601 texts fed to Convert::To<time_point|duration|time_t|tm> (C15's grammar-based and mutated strings; the harness hands them
    # over as views that are not NUL-terminated): all the very short ones, and a sample of the rest
    from . import C15
    sub = [o for o in C15.gen("quick", _r.Random(rng.randrange(10 ** 9)), 1) if o.startswith("iso.parse")]
    short = [o for o in sub if len(o.split(" ")[-1]) <= 10]
    rng.shuffle(sub)
    ops += short + sub[: 1500 if q else 9000]
    # stream input that ENDS inside a multi-byte scalar / length field which straddles the 256-byte cache boundary of the binary stream
    # reader (the refill delivers only part of the block): must be a parsing error, never a block made of stale buffer bytes
    from . import mpgen as M
    scal = [bytes([0xCD, 0x12, 0x34]), bytes([0xCE, 1, 2, 3, 4]), bytes([0xCF, 1, 2, 3, 4, 5, 6, 7, 8]), bytes([0xCA, 0x3F, 0x80, 0, 0]),
            bytes([0xCB, 0x3F, 0xF0, 0, 0, 0, 0, 0, 0]), bytes([0xDA, 0, 3, 0x61, 0x62, 0x63]), bytes([0xD7, 0xFF, 0, 0, 0, 1, 0, 0, 0, 2]),
            bytes([0xDC, 0, 2, 1, 2]), bytes([0xD3, 0xFF, 0xFF, 0xFF, 0xFF, 0, 0, 0, 1])]
    for d in scal:
        for pre in range(256 - len(d), 257):
            for cut in range(1, len(d)):
                for T in ("i64", "u64", "f64", "str", "ts", "arr"):
                    ops.append(M.read_op("stream", "throw", "skip", T, pre, d[:cut]))
                ops.append(f"mp.skip stream {pre} {M.hx(d[:cut])}")
    return ops
