"""Generator of bs.run ops (CBinaryStreamReader histories) shared by C10 and C03."""
N = 256


def hexb(bs):
    return "".join("%02x" % b for b in bs) if bs else "-"


def gen_history(rng, total, nops, backward=True, allow_bad_set=False):
    ops = []
    pos = 0
    for _ in range(nops):
        k = rng.random()
        if k < 0.12:
            ops.append("peek")
        elif k < 0.2:
            ops.append("next"); pos = min(total, pos + 1)
        elif k < 0.35:
            ops.append("rb"); pos = min(total, pos + 1)
        elif k < 0.6:
            sz = rng.choice([0, 1, 2, 3, 4, 5, 8, 9, 16, 17, 31, 32, 100, 255, 256, 257])
            if rng.random() < 0.5:
                # aim at the chunk boundary
                nxt = ((pos // N) + 1) * N
                sz = max(0, min(256, nxt - pos + rng.choice([-1, 0, 1, 2])))
            ops.append(f"solid:{sz}")
            if sz <= N and pos + sz <= total:
                pos += sz
        elif k < 0.72:
            sz = rng.choice([0, 1, 5, 100, 255, 256, 257, 300, 1000])
            ops.append(f"chunks:{sz}")
            pos = None  # depends on cache state
        elif k < 0.9 and backward:
            lim = total + (3 if allow_bad_set else 0)
            choices = [0, total, max(0, total - 1), N, N - 1, N + 1, 2 * N, rng.randrange(0, lim + 1)]
            if pos is not None:
                choices += [pos, max(0, pos - 1), max(0, pos - N), max(0, pos - N - 1), min(total, pos + 1)]
            p = min(rng.choice(choices), lim)
            ops.append(f"set:{p}")
            pos = p if p <= total else pos
        else:
            ops.append(rng.choice(["pos", "end", "failed"]))
        if pos is None:
            ops.append("pos")
            pos = 0  # unknown; keep generator going (only used for aiming)
    ops += ["pos", "end"]
    return ";".join(ops)


def gen_bs(tier, rng, boost=1):
    out = []
    lens = [0, 1, 2, 255, 256, 257, 258, 300, 511, 512, 513, 600, 768, 1000]
    n = (400 if tier == "quick" else 8000) * boost
    for i in range(n):
        total = rng.choice(lens) if i % 3 else rng.randrange(0, 800)
        data = [rng.randrange(256) for _ in range(total)]
        hist = gen_history(rng, total, rng.choice([3, 8, 20, 40]), allow_bad_set=(rng.random() < 0.15))
        out.append(f"bs.run {N} {hexb(data)} {hist}")
    # reverse-order positioning on multi-chunk streams (the C03 example)
    for total in (257, 512, 700):
        data = [(i * 7 + 3) % 256 for i in range(total)]
        hist = ";".join(f"set:{p};rb;pos" for p in range(total - 1, -1, -37)) + ";end"
        out.append(f"bs.run {N} {hexb(data)} {hist}")
        hist = "solid:200;solid:100;" + ";".join(f"set:{p};solid:5" for p in (290, 250, 10, 600, 0)) + ";pos;end"
        out.append(f"bs.run {N} {hexb(data)} {hist}")
    return out
