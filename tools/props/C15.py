"""C15 — ISO-8601 parsing either yields the denoted value or throws; it never wraps."""
from .chronogen import *

THEOREMS = [
    "BSVerif.Props.C15.safeDurationCast_spec",
    "BSVerif.Props.C15.safeAddTp_spec",
    "BSVerif.Props.C15.safeAddDur_spec_same",
    "BSVerif.Props.C15.safeAddDur_spec_i64",
    "BSVerif.Props.C15.parse_fractions_exact",
    "BSVerif.Props.C15.parse_tp_fields_valid",
    "BSVerif.Props.C15.parse_tp_never_wraps",
    "BSVerif.Props.C15.parse_dur_rejects_years_months",
    "BSVerif.Props.C15.parse_dur_rejects_unknown_designator",
    "BSVerif.Props.C15.first_day_refuted",
]
RULE = ("grammar-based strings for [+-]Y..Y-MM-DDThh:mm:ss[.f{1,9}]Z and [+-]PnWnDTnHnMnS with every field at/below/above its range, "
        "sign/width/separator variants, magnitudes around every target limit and around 2^31/2^63/2^64 and beyond, fraction digits "
        "1..12 with rounding ties, lenient forms, mutated strings and garbage, in char/char16_t/char32_t, for time_point and duration "
        "over {ns,us,ms,s,min,h,d} x {int64,int32,uint64,int8}, time_t and tm (thorough: all fractions of 1..6 digits); "
        "non-trivial = the answer is a value or out_of_range; distinct = distinct op lines")
EXHAUSTIVE = {"quick": False, "thorough": False}
ASSUMPTIONS = ["LP64 platform: time_t = long = int64_t, int = int32_t, intmax_t = int64_t",
               "std::isdigit/std::isspace in the \"C\" locale; bytes >= 0x80 are neither digits nor white space",
               "the narrowing conversions static_cast<intN_t> are modular (g++; implementation-defined before C++20)"]
TRUSTED = ["libstdc++ <chrono>/<charconv> semantics as transliterated in BSVerif/Chrono/Model.lean (duration_cast, floor, round, from_chars)",
           "UTF-8 encoding of char16_t/char32_t input: the UTF model of C11/C12 (Utf8::Encode, policy Skip, mark U+2610)"]
OP_TIMEOUT = 20.0

WIDTHS = (8, 16, 32)
BIG = [2 ** 31 - 1, 2 ** 31, 2 ** 31 + 1, 2 ** 32 - 1, 2 ** 32, 2 ** 63 - 1, 2 ** 63, 2 ** 63 + 1, 2 ** 64 - 1, 2 ** 64, 2 ** 64 + 1, 10 ** 20, 10 ** 30]
ALPHABET = "0123456789+-:.,TZPWDHMSY /zt \t\n"
UNIT_S = {"W": 604800, "D": 86400, "H": 3600, "M": 60, "S": 1}


def nontrivial(op, impl):
    return impl.startswith("ok") or impl == "err out_of_range"


def w_of(rng):
    return rng.choice((8, 8, 8, 16, 32))


def tp_op(rng, prec, rep, text, w=None):
    w = w or w_of(rng)
    return f"iso.parse_tp {prec}:{rep} {w} {hx(text, w)}"


def dur_op(rng, prec, rep, text, w=None):
    w = w or w_of(rng)
    return f"iso.parse_dur {prec}:{rep} {w} {hx(text, w)}"


def rand_type(rng):
    return rng.choice(ALL_TYPES)


def frac_variants(rng):
    """fraction strings (without separator) with rounding ties for every target precision"""
    out = ["", "0", "5", "9", "05", "50", "49", "51", "000", "001", "499", "500", "501", "999", "4999", "5000", "5001", "0005", "00049", "00051",
           "000001", "999999", "4999999", "5000001", "0000005", "00000049", "000000001", "999999999", "499999999", "500000000", "500000001",
           "000000499", "000000500", "000000501", "000499999", "000500000", "000500001", "0000000001", "0000000000", "1234567891",
           "9999999999", "4294967295", "4294967296", "00000000000000", "123456789012"]
    out += [str(rng.randrange(10 ** n)).zfill(n) for n in range(1, 10) for _ in range(2)]
    return out


def tp_text(y, mo, d, h, mi, s, frac=None, sep=".", ysign=None, z="Z", wy=4, w2=2):
    ys = ("%0*d" % (wy, abs(y))) if isinstance(y, int) else y
    if isinstance(y, int):
        sg = ysign if ysign is not None else ("-" if y < 0 else "+" if y > 9999 else "")
        ys = sg + ys
    t = "%s-%0*d-%0*dT%0*d:%0*d:%0*d" % (ys, w2, mo, w2, d, w2, h, w2, mi, w2, s)
    if frac is not None:
        t += sep + frac
    return t + z


def gen_tp(tier, rng, boost):
    ops = []
    n = 1 if tier == "quick" else 4
    # 1. every field at / below / above its range, all dates of boundary years
    for y in (2023, 2024, 1900, 2000, 0, -4, -1, -100, -400, 10000):
        for mo in (0, 1, 2, 3, 4, 6, 11, 12, 13, 99):
            for d in (0, 1, 28, 29, 30, 31, 32, 99):
                prec, rep = rand_type(rng)
                ops.append(tp_op(rng, prec, rep, tp_text(y, mo, d, rng.randrange(24), rng.randrange(60), rng.randrange(60))))
    for h in (0, 1, 12, 23, 24, 25, 99):
        for mi in (0, 59, 60, 61, 99):
            for s in (0, 59, 60, 61, 99):
                prec, rep = rand_type(rng)
                ops.append(tp_op(rng, prec, rep, tp_text(2024, 2, 29, h, mi, s)))
    # 2. lexical variants of a valid date-time
    for (y, mo, d) in ((2044, 1, 1), (1969, 12, 31), (-1241, 6, 23), (12376, 1, 20), (0, 1, 1), (-1, 12, 31), (9999, 12, 31), (10000, 1, 1)):
        base = dict(y=y, mo=mo, d=d, h=4, mi=55, s=32)
        variants = []
        for ysign in (None, "", "+", "-", "+-", "-+", "++", "--", " ", "+ "):
            variants.append(tp_text(ysign=ysign, **base))
        for wy in (1, 2, 3, 4, 5, 8, 25):
            variants.append(tp_text(wy=wy, **base))
        for w2 in (1, 3, 12):
            variants.append(tp_text(w2=w2, **base))
        for z in ("", "z", "Z ", "ZZ", "Z\t", "Z\n", " Z", "Z+01:00", "+01:00", "-00:00", "Z/P2M", "Z Z", "\0Z", "Z\0"):
            variants.append(tp_text(z=z, **base))
        t0 = tp_text(**base)
        for a, b in (("T", " "), ("T", "t"), ("-", "/"), (":", "."), (":", "-"), ("-", ""), ("T", ""), (":", ""), ("T", "TT"), (":", "::")):
            i = t0.rfind(a) if a == "-" else t0.find(a)
            variants.append(t0[:i] + b + t0[i + 1:])
        variants += [" " + t0, "\t" + t0, t0[:-1], t0[:10], t0[:11], t0[:16] + "Z", "", "Z", "T", "-", "+", "0", t0 * 2]
        for f in frac_variants(rng):
            for sep in (".", ","):
                variants.append(tp_text(frac=f, sep=sep, **base))
        variants += [tp_text(frac="5", sep=sep, **base) for sep in (";", ":", "..", ".,", " .")]
        variants += [tp_text(frac=f, **base) for f in ("-5", "+5", " 5", "5 ", "5.5", "x", "5x")]
        for v in variants:
            for _ in range(n):
                prec, rep = rand_type(rng)
                ops.append(tp_op(rng, prec, rep, v))
    # 3. around the limits of every target type: exact limits, one unit beyond, fractions that round across the limit
    for (prec, rep) in ALL_TYPES:
        lo, hi = rng_of(rep)
        num, den = PRECS[prec]
        K = per_day(prec)
        for edge in (lo, hi, 0, -(-lo // K) * K, hi // K * K):
            for dlt in (-2, -1, 0, 1, 2):
                c = edge + dlt
                # exact instant in nanoseconds, printed with 9 digits (beyond the target precision)
                for extra_ns in (0, 1, num * 10 ** 9 // den // 2 - 1, num * 10 ** 9 // den // 2, num * 10 ** 9 // den // 2 + 1, -1):
                    total_ns = c * num * (10 ** 9 // den) + extra_ns
                    try:
                        txt = fmt_tp("ns", total_ns)
                    except (OverflowError, ValueError):
                        continue
                    if total_ns % 10 ** 9 == 0 and rng.random() < 0.5:
                        txt = txt[:-11] + "Z"
                    ops.append(tp_op(rng, prec, rep, txt, 8 if rng.random() < 0.8 else rng.choice((16, 32))))
    # 4. years of huge magnitude (era guard, from_chars limits, signed overflow next to INT64_MIN)
    ys = BIG + [25252734927766554, 25252734927766555, 25252734927768524, 25252734927768525, 25252734927764585, 25252734927764586,
                25252734927764584, 2 ** 63 - 400, 2 ** 63 - 399, 292277026596, 292277026597, 292277022657, 292277022658,
                63131837319416 * 400, 63131837319416 * 400 + 399, 63131837319417 * 400, 63131837319411 * 400, 5881580, 5881581, 5877641, 5877642]
    for y in ys:
        for sg in ("+", "-"):
            for (mo, d) in ((1, 1), (2, 29), (3, 1), (12, 31), (7, 11), (6, 23)):
                for (prec, rep) in (("d", "i64"), ("s", "i64"), ("d", "i32"), ("h", "i64"), ("d", "u64"), rand_type(rng)):
                    ops.append(tp_op(rng, prec, rep, "%s%d-%02d-%02dT00:00:00Z" % (sg, y, mo, d), 8))
    # 5. random valid date-times into random types
    for _ in range((3000 if tier == "quick" else 60000) * boost):
        prec, rep = rand_type(rng)
        lo, hi = rng_of(rep)
        num, den = PRECS[prec]
        c = rand_count(rng, rep)
        total_ns = c * num * (10 ** 9 // den) + (rng.randrange(10 ** 9) if rng.random() < 0.5 else 0)
        txt = fmt_tp("ns", total_ns)
        nd = rng.choice((0, 1, 2, 3, 4, 6, 9, 9))
        txt = txt[:-11] + ("." + txt[-10:-10 + nd] if nd else "") + "Z"
        if rng.random() < 0.1:
            txt = txt.replace(".", ",")
        ops.append(tp_op(rng, prec, rep, txt))
    # 6. mutated strings
    for _ in range((4000 if tier == "quick" else 80000) * boost):
        prec, rep = rand_type(rng)
        t = list(fmt_tp(rng.choice(("s", "ms", "ns")), rng.randint(-10 ** 12, 10 ** 12)))
        for _ in range(rng.choice((1, 1, 2, 3))):
            k = rng.random()
            i = rng.randrange(len(t) + 1)
            if k < 0.4 and t:
                t[min(i, len(t) - 1)] = rng.choice(ALPHABET)
            elif k < 0.7:
                t.insert(i, rng.choice(ALPHABET))
            elif t:
                del t[min(i, len(t) - 1)]
        ops.append(tp_op(rng, prec, rep, "".join(t)))
    # 7. non-ASCII / ill-formed units in the three widths
    for w in WIDTHS:
        specials = {8: [0x80, 0xC3, 0xFF, 0xE2, 0x00], 16: [0x80, 0xFF10, 0x2610, 0xD800, 0xDC00, 0xFFFF, 0x0130, 0x00],
                    32: [0x80, 0xFF10, 0x1D7CE, 0xD800, 0x110000, 0xFFFFFFFF, 0x00]}[w]
        t0 = [ord(c) for c in "2023-07-14T22:44:51.925Z"]
        for sp in specials:
            for i in (0, 4, 10, 19, 23, 24):
                u = t0[:i] + [sp] + t0[i:]
                ops.append(f"iso.parse_tp ms:i64 {w} {hx_units(u, w)}")
                u = t0[:]
                u[min(i, 23)] = sp
                ops.append(f"iso.parse_tp s:i32 {w} {hx_units(u, w)}")
    # time_t and tm
    for (y, mo, d) in boundary_dates():
        txt = tp_text(y, mo, d, rng.randrange(25), rng.randrange(61), rng.randrange(61), frac=rng.choice((None, None, "5", "999")))
        w = w_of(rng)
        ops.append(f"iso.parse_raw {w} {hx(txt, w)}")
        ops.append(f"iso.parse_tm {w} {hx(txt, w)}")
    for y in (2 ** 31 - 1, 2 ** 31, -2 ** 31, -2 ** 31 - 1, 2 ** 63, 2 ** 64):
        txt = "%s%d-12-04T15:30:07Z" % ("+" if y > 0 else "-", abs(y))
        ops.append(f"iso.parse_tm 8 {hx(txt)}")
        ops.append(f"iso.parse_raw 8 {hx(txt)}")
    if tier == "thorough":
        for nd in range(1, 7):
            for v in range(10 ** nd):
                f = str(v).zfill(nd)
                prec = ("ns", "us", "ms", "s")[v % 4]
                ops.append(f"iso.parse_tp {prec}:i64 8 {hx('2023-07-14T22:44:51.' + f + 'Z')}")
    return ops


def dur_text(parts, sign="", tparts=None, sep="."):
    """parts: list of (value, unit) for the date section; tparts: time section (value may carry a fraction string)"""
    t = sign + "P" + "".join("%s%s" % (v, u) for v, u in parts)
    if tparts is not None:
        t += "T" + "".join("%s%s" % (str(v).replace(".", sep), u) for v, u in tparts)
    return t


def gen_dur(tier, rng, boost):
    ops = []
    n = 1 if tier == "quick" else 4
    # 1. every component around every target limit
    for (prec, rep) in ALL_TYPES:
        lo, hi = rng_of(rep)
        num, den = PRECS[prec]
        for u, us in UNIT_S.items():
            for (sg, lim) in (("", hi), ("-", -lo), ("+", hi)):
                q = lim * num // (den * us)          # largest whole number of `u` below the limit
                for v in {q - 1, q, q + 1, q + 2, 0, 1}:
                    if v < 0:
                        continue
                    txt = dur_text([(v, u)], sg) if u in "WD" else dur_text([], sg, [(v, u)])
                    ops.append(dur_op(rng, prec, rep, txt, 8))
                # limit reached exactly with a remainder in smaller units and a fraction
                total_units = lim
                secs, fr = divmod(total_units * num * (10 ** 9 // den), 10 ** 9) if den > 1 else (total_units * num, 0)
                for dfr in (-1, 0, 1, 5 * 10 ** 8 // den if den > 1 else 5 * 10 ** 8):
                    f = fr + dfr
                    s2 = secs
                    if f < 0:
                        s2, f = secs - 1, f + 10 ** 9
                    if f >= 10 ** 9:
                        s2, f = secs + 1, f - 10 ** 9
                    if s2 < 0:
                        continue
                    dd, r = divmod(s2, 86400)
                    txt = dur_text([(dd, "D")], sg, [(r // 3600, "H"), (r % 3600 // 60, "M"), ("%d.%09d" % (r % 60, f), "S")], rng.choice(".,"))
                    ops.append(dur_op(rng, prec, rep, txt, 8))
    # 2. magnitudes around 2^31 / 2^63 / 2^64 and beyond
    for v in BIG:
        for u in "WDHMS":
            for sg in ("", "-"):
                for _ in range(n):
                    prec, rep = rand_type(rng)
                    txt = dur_text([(v, u)], sg) if u in "WD" else dur_text([], sg, [(v, u)])
                    ops.append(dur_op(rng, prec, rep, txt))
        for (prec, rep) in (("d", "i64"), ("d", "u64"), ("h", "u64"), ("s", "i64"), ("min", "i64")):
            ops.append(dur_op(rng, prec, rep, dur_text([], "", [(v * 1440, "M")]), 8))
            ops.append(dur_op(rng, prec, rep, dur_text([], "-", [(v * 1440, "M")]), 8))
    # unsigned 64-bit magnitudes into coarser targets (quotient checks of SafeDurationCast)
    for v in (2 ** 63 - 1, 2 ** 63, 2 ** 63 + 1, 2 ** 64 - 1, 2 ** 64 - 16, (2 ** 64 - 1) // 3600 * 3600, (2 ** 64 - 1) // 86400 * 86400, (2 ** 64 - 1) // 60 * 60):
        for u in "SMHD":
            for prec in ("min", "h", "d", "s"):
                for rep in REPS:
                    for sg in ("", "-"):
                        txt = dur_text([(v, u)], sg) if u in "WD" else dur_text([], sg, [(v, u)])
                        ops.append(dur_op(rng, prec, rep, txt, 8))
    # 3. documented and lenient forms, invalid forms
    forms = ["P125DT55M41S", "PT10H20.346S", "P10DT25M", "P35W5D", "-P10DT25M", "+PT10S", "P1W", "P1D", "PT1H", "PT1M", "PT1S", "PT0S", "PT0.0S",
             "P0D", "P0W", "PT0M", "PT0H", "P1DT1H1M1S", "P1W1DT1H1M1.5S", "PT35M25S Hello", "PT23H59M59S\nHello", "PT540M3600S", "P5DT120H",
             "PT30M1800S", "PT0.5S", "PT0,5S", "PT1.5S", "PT2.5S", "-PT2.5S", "PT0.5S0.5S", "PT0.5S1H", "PT1S1H", "P1D1D", "P1D2W", "PT1M1H",
             "P0S", "P10H20M30S", "T0S", "P", "-P", "-PT", "PT", "PT-1S", "PTM1S", "P5Y", "P5YT20D", "P10MT20M", "P1M", "PT1D", "PT1W", "P1H",
             "2003-02-15T00:00:00Z/P2M", "P0.5D", "P0,5W", "PT0.5H", "PT0.5M", "PT1.5", "PT1.", "PT.5S", "PT1.S", "PT1..5S", "PT1.5.5S",
             "", " ", "P ", "P1", "PD", "PTS", "P1DT", "PTT1H", "PT1HT1M", "p1d", "P1d", "pt1s", "PT1s", " P1D", "P 1D", "P1 D", "P1D ", "P1D\t",
             "++P1D", "+-P1D", "-+P1D", "--P1D", "P+1D", "P-1D", "PT+1S", "P1DT1S.", "PT1S ", "PT1S\0", "PT1SX", "PT1S1", "P1D1", "PT01S", "PT0001.5S",
             "PT1.0000000000S", "PT1.1234567891S", "PT1.4294967296S", "PT0.000000001S", "PT0.0000000001S"]
    for f in forms:
        for (prec, rep) in ALL_TYPES if tier == "thorough" else [rand_type(rng) for _ in range(6)]:
            ops.append(dur_op(rng, prec, rep, f))
    # fractions against every precision (ties)
    for f in frac_variants(rng):
        for sg in ("", "-"):
            for whole in (0, 1, 59, 127, 128):
                prec, rep = rand_type(rng)
                ops.append(dur_op(rng, prec, rep, "%sPT%d%s%sS" % (sg, whole, rng.choice(".,"), f)))
    # 4. random valid durations
    for _ in range((3000 if tier == "quick" else 60000) * boost):
        prec, rep = rand_type(rng)
        num, den = PRECS[prec]
        c = rand_count(rng, rep)
        total_ns = abs(c) * num * (10 ** 9 // den)
        secs, fr = divmod(total_ns, 10 ** 9)
        if rng.random() < 0.3:
            fr = rng.randrange(10 ** 9)
        dd, r = divmod(secs, 86400)
        tparts = [(r // 3600, "H"), (r % 3600 // 60, "M"), (("%d.%09d" % (r % 60, fr)).rstrip("0").rstrip(".") if fr else r % 60, "S")]
        tparts = [x for x in tparts if x[0] != 0 or rng.random() < 0.2] or [(0, "S")]
        dparts = [(dd // 7, "W"), (dd % 7, "D")] if rng.random() < 0.3 else [(dd, "D")]
        dparts = [x for x in dparts if x[0] != 0 or rng.random() < 0.2]
        ops.append(dur_op(rng, prec, rep, dur_text(dparts, "-" if c < 0 else rng.choice(("", "", "+")), tparts, rng.choice(".,"))))
    # 5. mutated strings
    for _ in range((4000 if tier == "quick" else 80000) * boost):
        prec, rep = rand_type(rng)
        t = list(rng.choice(forms[:30]))
        for _ in range(rng.choice((1, 1, 2, 3))):
            k = rng.random()
            i = rng.randrange(len(t) + 1)
            if k < 0.4 and t:
                t[min(i, len(t) - 1)] = rng.choice(ALPHABET)
            elif k < 0.7:
                t.insert(i, rng.choice(ALPHABET))
            elif t:
                del t[min(i, len(t) - 1)]
        ops.append(dur_op(rng, prec, rep, "".join(t)))
    # 6. non-ASCII / ill-formed units
    for w in WIDTHS:
        specials = {8: [0x80, 0xC3, 0xFF, 0x00], 16: [0x80, 0xFF10, 0x2610, 0xD800, 0xDC00, 0x00], 32: [0x80, 0x1D7CE, 0xD800, 0x110000, 0xFFFFFFFF, 0x00]}[w]
        t0 = [ord(c) for c in "-P3DT4H5M6.5S"]
        for sp in specials:
            for i in range(len(t0) + 1):
                ops.append(f"iso.parse_dur ms:i64 {w} {hx_units(t0[:i] + [sp] + t0[i:], w)}")
    if tier == "thorough":
        for nd in range(1, 7):
            for v in range(10 ** nd):
                f = str(v).zfill(nd)
                prec = ("ns", "us", "ms", "s")[v % 4]
                ops.append(f"iso.parse_dur {prec}:i64 8 {hx(('-' if v % 3 == 0 else '') + 'PT7.' + f + 'S')}")
    return ops


def gen(tier, rng, boost=1):
    return gen_tp(tier, rng, boost) + gen_dur(tier, rng, boost)
