"""C12 — ill-formed UTF input is reported or replaced per policy, never propagated."""
import itertools
from .utfgen import *

THEOREMS = [
    "BSVerif.Props.C12.transcode_in_bounds",
    "BSVerif.Props.C12.transcode_shape",
    "BSVerif.Props.C12.transcode_output_wellformed",
    "BSVerif.Props.C12.decode8_bounds",
    "BSVerif.Props.C12.encode8_bounds",
    "BSVerif.Props.C12.decode16to32_bounds",
    "BSVerif.Props.C12.encode16from32_bounds",
    "BSVerif.Props.C12.copy16_bounds",
    "BSVerif.Props.C12.decode8_shape",
    "BSVerif.Props.C12.encode8_shape",
    "BSVerif.Props.C12.decode16to32_shape",
    "BSVerif.Props.C12.encode16from32_shape",
    "BSVerif.Props.C12.render_wellformed",
    "BSVerif.Props.C12.decode8_throw_sound",
    "BSVerif.Props.C12.encode8_throw_sound",
    "BSVerif.Props.C12.decode16to32_throw_sound",
    "BSVerif.Props.C12.encode16from32_throw_sound",
    "BSVerif.Props.C12.transcode_throw_sound",
]
RULE = ("all UTF-8 strings of length 1 and 2 (quick) / up to 3 (thorough) exhaustively; 4-byte strings, UTF-16 pairs/triples and "
        "UTF-32 units by class; ill-formed runs embedded in valid text; x targets x {skip with null/empty/default/custom mark, throw}; "
        "non-trivial = the implementation reported an error code or a non-zero invalid count; distinct = distinct op lines")
EXHAUSTIVE = {"quick": False, "thorough": False}
ASSUMPTIONS = ["code units < 2^w", "same-width copies are outside C12 (library passes them through unvalidated by design)"]

B8 = [0x00, 0x41, 0x7F, 0x80, 0x8F, 0x90, 0x9F, 0xA0, 0xBF, 0xC0, 0xC1, 0xC2, 0xDF, 0xE0, 0xE1, 0xEC, 0xED, 0xEE, 0xEF,
      0xF0, 0xF1, 0xF3, 0xF4, 0xF5, 0xF7, 0xF8, 0xFB, 0xFC, 0xFD, 0xFE, 0xFF]
U16 = [0x41, 0x7F, 0x80, 0x7FF, 0x800, 0xD7FF, 0xD800, 0xD801, 0xDBFE, 0xDBFF, 0xDC00, 0xDC01, 0xDFFE, 0xDFFF, 0xE000, 0xFFFD, 0xFFFF]
U32 = [0x41, 0x80, 0x7FF, 0x800, 0xD7FF, 0xD800, 0xDBFF, 0xDC00, 0xDFFF, 0xE000, 0xFFFF, 0x10000, 0x10FFFF, 0x110000, 0x1FFFFF,
       0x200000, 0x7FFFFFFF, 0x80000000, 0xFFFFFFFF, 0xFFFE0000]


def nontrivial(op, impl):
    t = impl.split(" ")
    return len(t) >= 3 and (t[0] != "ok" or t[2] != "0")


def cfg(rng, wo):
    pol = rng.choice(["skip", "skip", "throw"])
    mark = mark_tok(wo, rng.choice(MARKS[wo]))
    out0 = units(wo, encs(wo, [rand_scalar(rng) for _ in range(rng.choice([0, 0, 0, 2]))]))
    return pol, mark, out0


def op_for(rng, wi, wo, inp, allcfg=False):
    ops = []
    cfgs = [cfg(rng, wo)]
    if allcfg:
        cfgs = [("skip", mark_tok(wo, m), "-") for m in MARKS[wo][:4]] + [("throw", "null", "-")]
    for pol, mark, out0 in cfgs:
        ops.append(f"utf.transcode {wi} {wo} {pol} {mark} {out0} {units(wi, inp)}")
        if (wi == 32 or wo == 32) and wi != wo:
            ops.append(f"utf.transcodew {wi} {wo} {pol} {mark} {out0} {units(wi, inp)}")     # wchar_t on the 32-bit side
    return ops


def gen(tier, rng, boost=1):
    ops = []
    # UTF-8: all 1-byte strings, all configs, both targets
    for b in range(256):
        for wo in (16, 32):
            ops += op_for(rng, 8, wo, [b], allcfg=True)
    # UTF-8: all 2-byte strings
    for a in range(256):
        for b in range(256):
            ops += op_for(rng, 8, rng.choice((16, 32)), [a, b])
    # UTF-8: class products of length 3 and 4 (+ one following ASCII to expose swallowing)
    for n in (3, 4):
        combos = list(itertools.product(B8, repeat=n))
        if tier == "quick":
            combos = rng.sample(combos, min(len(combos), 6000 * boost))
        for c in combos:
            ops += op_for(rng, 8, rng.choice((16, 32)), list(c))
    # UTF-16: all class pairs and triples
    for n in (1, 2, 3):
        for c in itertools.product(U16, repeat=n):
            ops += op_for(rng, 16, rng.choice((8, 32)), list(c), allcfg=(n == 1))
    # UTF-32: all class singles/pairs
    for n in (1, 2):
        for c in itertools.product(U32, repeat=n):
            ops += op_for(rng, 32, rng.choice((8, 16)), list(c), allcfg=(n == 1))
    # typed LE/BE entry points on ill-formed class inputs
    for c in itertools.product(U16, repeat=2):
        src = rng.choice(["16", "16le", "16be"])
        wo = rng.choice((8, 32))
        inp = [rev(16, u) for u in c] if src == "16be" else list(c)
        pol, mark, out0 = cfg(rng, wo)
        ops.append(f"utf.dec {src} {wo} {pol} {mark} {out0} {units(16, inp)}")
    for c in U32:
        for dst in ("16", "16le", "16be"):
            pol, mark, out0 = cfg(rng, 16)
            ops.append(f"utf.enc {dst} 32 {pol} {mark} {out0} {units(32, [0x41, c, 0x42])}")
    # ill-formed runs embedded in valid text
    n = (1500 if tier == "quick" else 30000) * boost
    for _ in range(n):
        wi = rng.choice(WIDTHS)
        wo = rng.choice([w for w in WIDTHS if w != wi])
        t = []
        for _ in range(rng.choice([1, 2, 3, 6, 20])):
            t += enc(wi, rand_scalar(rng))
            if rng.random() < 0.5:
                pool = B8 if wi == 8 else U16 if wi == 16 else U32
                t += [rng.choice(pool) for _ in range(rng.choice([1, 1, 2, 3]))]
        if rng.random() < 0.3 and t:
            t = t[:rng.randrange(len(t) + 1)]          # truncated tail
        ops += op_for(rng, wi, wo, t)
    if tier == "thorough":
        for a in range(256):
            for b in range(256):
                wo = 16 if (a ^ b) & 1 else 32
                for c in range(256):
                    pol = "skip" if c & 1 else "throw"
                    ops.append(f"utf.transcode 8 {wo} {pol} 3f - {units(8, [a, b, c])}")
    return ops
