"""C03 — named fields load correctly in any request order, with absent and unread fields."""
from .scopegen import gen_scope_ops
from .binstream_gen import gen_bs

THEOREMS = [
    "BSVerif.Props.C03.get_correct",
    "BSVerif.Props.C03.history_correct",
    "BSVerif.Props.C03.close_after_any_history",
    "BSVerif.Props.C03.fresh_scope_inv",
    "BSVerif.Props.C03.array_left_partly_read_refuted",
    "BSVerif.Scope.findLoop_cyclic",
    "BSVerif.Scope.findValueByKey_spec",
    "BSVerif.Scope.objGet_spec",
    "BSVerif.Scope.objClose_spec",
    "BSVerif.Scope.wfv_arr",
    "BSVerif.Scope.wfv_map",
]
RULE = ("random MsgPack documents (objects with distinct string/int keys; scalar, array and object values, depth <= 3) x request "
        "histories (reverse/shuffled/partial orders, repeated and absent keys, nested open/partial read/close, VisitKeys, sentinel after "
        "the object) x {memory, stream} x policies, on the real read scopes; stream documents shifted across the 256-byte cache "
        "boundary; plus CBinaryStreamReader position histories; non-trivial = history with >= 3 requests; distinct = distinct op lines")
EXHAUSTIVE = {"quick": False, "thorough": False}
ASSUMPTIONS = ["token-level reader: positions are token indices (byte-level reader is C07's model)",
               "JSON/XML lookups are third-party DOM lookups (FindMember / child(name)): exercised by C01/C08 ops, not modelled here"]


def nontrivial(op, impl):
    return op.count(";") >= 2


def gen(tier, rng, boost=1):
    ops = gen_scope_ops(tier, rng, boost)
    ops += gen_bs(tier, rng, boost)[: (150 if tier == "quick" else 3000)]
    return ops
