"""C03 — named fields load correctly in any request order, with absent and unread fields."""
from .scopegen import gen_scope_ops, gen_tupobj_ops
from .binstream_gen import gen_bs

THEOREMS = [
    "BSVerif.Props.C03.get_correct",
    "BSVerif.Props.C03.history_correct",
    "BSVerif.Props.C03.close_after_any_history",
    "BSVerif.Props.C03.fresh_scope_inv",
    "BSVerif.Props.C03.req_correct",
    "BSVerif.Props.C03.history_with_arrays_correct",
    "BSVerif.Props.C03.close_after_any_history_with_arrays",
    "BSVerif.Props.C03.array_left_partly_read_harmless",
    "BSVerif.Props.C03.array_left_partly_read_refuted_before_fix",
    "BSVerif.Props.C03.objReadArr_is_machine",
    "BSVerif.Props.C03.arrReads_is_machine",
    "BSVerif.Props.C03.binary_left_partly_read_harmless",
    "BSVerif.Props.C03.binary_left_partly_read_harmless_in_array",
    "BSVerif.Props.C03.binary_left_partly_read_refuted_before_fix",
    "BSVerif.Props.C03.objReadBin_is_machine",
    "BSVerif.Props.C03.binReads_is_machine",
    "BSVerif.Props.C03.ext_and_timestamp_are_complete_values",
    "BSVerif.Scope.objReadBin_spec",
    "BSVerif.Scope.binReads_at",
    "BSVerif.Scope.binClose_at",
    "BSVerif.Scope.objReadArr_spec",
    "BSVerif.Scope.arrReads_at",
    "BSVerif.Scope.arrCloseLoop_at",
    "BSVerif.Scope.findLoop_cyclic",
    "BSVerif.Scope.findValueByKey_spec",
    "BSVerif.Scope.objGet_spec",
    "BSVerif.Scope.objClose_spec",
    "BSVerif.Scope.wfv_arr",
    "BSVerif.Scope.wfv_map",
    "BSVerif.Props.C03.key_compare_is_integer_equality",
    "BSVerif.Scope.VarKey.eqKeyNoGuard_refuted",
]
RULE = ("CSV tables read by column name in any order / twice / absent through both CSV readers; random MsgPack documents (objects with distinct string/int/timestamp keys; scalar — incl. ext values of "
        "every format fixext1..16/ext8/ext16, timestamps 32/64, integers at the edge of int64 —, `bin` (0/1/5/300 bytes), array and object values, depth <= 3; objects, arrays and `bin` values at the root) x request "
        "histories (reverse/shuffled/partial orders, repeated and absent keys, nested open/partial read/close — array scopes left partly read at any element, binary scopes read fully / partly / not at all / "
        "one byte past the end, OpenBinaryScope on values that are not bin, bin values requested as strings, all followed by further requests on the "
        "enclosing scopes —, VisitKeys, sentinel after the object; 8% of the documents cut at a token boundary: correspondence of the deferred-error "
        "path; std::tuple shorter/longer than the array inside a class followed by another field) x {memory, stream} x policies, on the real read scopes; stream documents shifted across the 256-byte cache "
        "boundary; plus CBinaryStreamReader position histories; non-trivial = history with >= 3 requests; distinct = distinct op lines")
EXHAUSTIVE = {"quick": False, "thorough": False}
ASSUMPTIONS = ["token-level reader: positions are token indices (byte-level reader is C07's model)",
               "JSON/XML lookups are third-party DOM lookups (FindMember / child(name)): exercised by C01/C08 ops, not modelled here"]


def nontrivial(op, impl):
    return op.count(";") >= 2


def gen(tier, rng, boost=1):
    ops = gen_scope_ops(tier, rng, boost)
    ops += gen_tupobj_ops(tier, rng, boost)
    ops += gen_bs(tier, rng, boost)[: (150 if tier == "quick" else 3000)]
    ops += keyeq_ops(tier, rng)
    # CSV rows are objects too: named columns requested in any order / repeatedly / absent, memory and stream reader,
    # quoted fields at every offset around the chunk boundary (C09's generator; judged by the CSV oracle)
    from .csvgen import gen_tables_read, gen_boundary, CHUNK
    q = tier == "quick"
    ops += gen_tables_read(rng, (150 if q else 3000) * boost, full_scripts_every=2)
    ops += gen_boundary(rng, range(-3, 4) if q else range(-16, 17), boundaries=(CHUNK,) if q else (CHUNK, 2 * CHUNK), tier=tier)
    return ops


def keyeq_ops(tier, rng):
    """CVariableKey::operator== on the real class: stored uint64/int64 alternative x every C++ integer type of the request,
    at all boundary values (incl. the two's-complement images of each other)"""
    edge = [0, 1, 5, 127, 128, 255, 256, 32767, 32768, 65535, 65536, 2 ** 31 - 1, 2 ** 31, 2 ** 32 - 1, 2 ** 32, 2 ** 63 - 1, 2 ** 63,
            2 ** 64 - 1, 2 ** 64 - 128, 2 ** 64 - 2 ** 31, 2 ** 32 - 128, 2 ** 16 - 1, 2 ** 8 - 1, 2 ** 64 - 32768]
    neg = [-1, -2, -32, -128, -129, -32768, -32769, -2 ** 31, -2 ** 31 - 1, -2 ** 63, -200]
    ops = []
    for alt, stored in [("u", v) for v in edge] + [("s", v) for v in neg + [e for e in edge if e < 2 ** 63]]:
        for bits in (8, 16, 32, 64):
            cands = set()
            for v in edge + neg + [stored, stored - 2 ** 64, stored - 2 ** 32, stored + 2 ** 64, stored + 2 ** 32, stored % 2 ** bits,
                                   stored % 2 ** bits - 2 ** bits]:
                cands.add(v)
            for v in sorted(cands):
                if -2 ** (bits - 1) <= v < 2 ** (bits - 1):
                    ops.append(f"mp.keyeq {alt} {stored} {bits} s {v}")
                if 0 <= v < 2 ** bits:
                    ops.append(f"mp.keyeq {alt} {stored} {bits} u {v}")
    if tier == "quick":
        rng.shuffle(ops)
        eq = [o for o in ops if o.split()[2] == o.split()[5]]
        ops = eq + ops[:3000]
    return ops
