"""C10 — memory and stream loading are equivalent wherever buffer boundaries fall."""
from .scopegen import gen_scope_ops
from .binstream_gen import gen_bs
from .C10csv import gen_c10, THEOREMS_C10CSV, extra_checks_c10, nontrivial_c10
from .C10mp import gen_c10mp, THEOREMS_C10MP, extra_checks_c10mp, nontrivial_c10mp

THEOREMS = [
    "BSVerif.Props.C10.init_refines",
    "BSVerif.Props.C10.isEnd_refines",
    "BSVerif.Props.C10.peekByte_refines",
    "BSVerif.Props.C10.readByte_refines",
    "BSVerif.Props.C10.gotoNextByte_refines",
    "BSVerif.Props.C10.readSolidBlock_refines",
    "BSVerif.Props.C10.readByChunks_refines",
    "BSVerif.Props.C10.setPosition_refines",
    "BSVerif.Props.C10.history_refines",
    "BSVerif.BinStream.readNextChunk_spec",
] + THEOREMS_C10CSV + THEOREMS_C10MP
RULE = ("CBinaryStreamReader operation histories (peek/next/readByte/solid/chunks/setPosition/getPosition/isEnd) on byte strings of "
        "length 0..1000 aimed at the 256-byte cache boundary, judged against the abstract cursor; MsgPack scope histories run from "
        "memory AND from a stream on the same documents (paired ops must give identical answers); non-trivial = history touching "
        "more than one chunk or a backward SetPosition; MsgPack token-level readers: every entry point of CMsgPackStringReader AND CMsgPackStreamReader, single calls on every token format at every offset around the 256/512-byte cache boundaries and HISTORIES of calls on one reader object (values read/skipped/mismatched, SetPosition back and beyond the end, long strings), each answer compared with its own model (string model / stream model over the CBinaryStreamReader model) and pairwise; every MsgPack writer entry point (C06's generator) through the string writer AND the stream writer, bytes compared; distinct = distinct op lines")
EXHAUSTIVE = {"quick": False, "thorough": False}
ASSUMPTIONS = ["MsgPack stream reader: the theorems need chunk size >= 8 (the largest solid block); an exception ends a history", "CSV stream input is UTF-8 without BOM (encoding detection is C13)", "seekable std::istringstream; short-read and non-seekable streambufs are not modelled (flags only)",
               "chunk size fixed at 256 in the executed code; the model and theorems are generic in N"]


def nontrivial(op, impl):
    if op.startswith("csv."):
        return nontrivial_c10(op, impl)
    if op.startswith("mp.write"):
        return len(impl) > 12
    if op.startswith(("mp.read", "mp.skip", "mp.type", "mp.seq", "mp.wseq")):
        return nontrivial_c10mp(op, impl)
    return "set:" in op or len(op) > 600


def gen(tier, rng, boost=1):
    ops = gen_bs(tier, rng, boost)
    # every scope history twice: memory and stream (extra_checks compares the pairs)
    base = gen_scope_ops(tier, rng, boost, count=(300 if tier == "quick" else 6000) * boost)
    for op in base:
        t = op.split(" ")
        ops.append(" ".join([t[0], "mem"] + t[2:]))
        ops.append(" ".join([t[0], "stream"] + t[2:]))
    ops += gen_c10(tier, rng, boost)
    # token-level MsgPack readers: string reader vs stream reader, single calls at the cache boundaries and histories
    ops += gen_c10mp(tier, rng, boost)
    # JSON and XML: the same document loaded from a string and from a stream (C08's document generators; every op twice)
    from . import C08 as J
    jx = J.gen_c04_json(rng, tier, boost)[: (200 if tier == "quick" else 20000)] + J.gen_json_docs(rng, tier, boost)
    try:
        jx += [o for o in J.gen_xml(tier, rng, boost) if o.startswith("xml.load")][: (150 if tier == "quick" else 10000)]
    except AttributeError:
        pass
    for o in jx:
        t = o.split(" ")
        if t[0] in ("json.load", "xml.load") and t[2] in ("str", "stream"):
            ops.append(" ".join(t[:2] + ["str"] + t[3:]))
            ops.append(" ".join(t[:2] + ["stream"] + t[3:]))
    # "saving to a stream yields exactly the bytes of saving to memory": every writer entry point of both MsgPack writers
    from .C06 import gen as gen_c06
    ops += gen_c06(tier, rng, boost)
    return ops


def adjust_verdict(op, impl, verdict):
    """mp.write ops are borrowed from C06 and judged here only for C10's own question: do CMsgPackStringWriter and
    CMsgPackStreamWriter produce the same bytes / the same error? (the bytes themselves are C06's business)"""
    if op.startswith(("json.", "xml.")):
        # conformance of the adapters is C08's question (its listed findings are C08's); here: model correspondence + str/stream pairs
        return "ok" if verdict.startswith("known:") else verdict
    if op.startswith(("mp.read", "mp.skip", "mp.type")):
        # conformance of single reader calls to the MessagePack Spec is C07's question (its listed findings are C07's);
        # here: correspondence with the two models + pairwise equality of the mem/stream answers (extra_checks)
        return "ok" if verdict.startswith("known:") else verdict
    if not op.startswith(("mp.write", "mp.wseq")):
        return verdict
    if " diff " in impl or impl.startswith("mixed"):
        return "bad:stream_writer_bytes_differ_from_memory_writer"
    if impl.startswith("crash:") or impl in ("terminate", "timeout"):
        return "bad:" + impl.replace(" ", "_")
    return "ok"


def _utf8_document(hexdoc):
    """UTF-8 text without a declaration of another encoding (XML prolog) and without a UTF-16/32 BOM"""
    import re
    try:
        b = bytes.fromhex(hexdoc) if hexdoc != "-" else b""
        b.decode("utf-8")
    except ValueError:
        return False
    if b[:2] in (b"\xff\xfe", b"\xfe\xff") or b[:4] == b"\x00\x00\xfe\xff":
        return False
    m = re.search(rb"<\?xml[^>]*encoding\s*=\s*[\"']([^\"']*)[\"']", b[:200])
    return not m or m.group(1).strip().lower() in (b"utf-8", b"utf8")


def extra_checks(ops, impl, res, known_classes, known_hits):
    """memory vs stream: same document + same history => same answers (the property itself)"""
    bad = []
    seen = {}
    for op, ia in zip(ops, impl):
        t = op.split(" ")
        if t[0] in ("json.load", "xml.load"):
            if not _utf8_document(t[-1]):
                continue          # the string overloads take UTF-8 text; a document in another declared encoding is outside the comparison
            key = " ".join(t[:2] + t[3:])
            if key in seen and seen[key][0] != t[2]:
                if seen[key][1] != ia:
                    bad.append((op, ia, seen[key][1], "bad:memory_and_stream_answers_differ"))
            else:
                seen[key] = (t[2], ia)
            continue
        if t[0] != "mp.scope":
            continue
        key = " ".join(t[2:])
        if key in seen and seen[key][0] != t[1]:
            if seen[key][1] != ia:
                bad.append((op, ia, seen[key][1], "bad:memory_and_stream_answers_differ"))
        else:
            seen[key] = (t[1], ia)
    bad += list(extra_checks_c10(ops, impl, res, known_classes, known_hits) or [])
    bad += list(extra_checks_c10mp(ops, impl, res, known_classes, known_hits) or [])
    return bad
