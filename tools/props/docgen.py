"""Document builders (independent of the library) for the fixed harness targets of ops_load.cpp, and mutators."""
import json as _json


def hexb(bs):
    return "".join("%02x" % b for b in bs) if bs else "-"


# ---- MessagePack mini encoder (from the specification) ------------------------------------------------
def mp_int(v):
    if v >= 0:
        if v < 128: return [v]
        if v < 256: return [0xCC, v]
        if v < 65536: return [0xCD] + list(v.to_bytes(2, "big"))
        if v < 2 ** 32: return [0xCE] + list(v.to_bytes(4, "big"))
        return [0xCF] + list(v.to_bytes(8, "big"))
    if v >= -32: return [v & 0xFF]
    if v >= -128: return [0xD0, v & 0xFF]
    if v >= -32768: return [0xD1] + list((v & 0xFFFF).to_bytes(2, "big"))
    if v >= -2 ** 31: return [0xD2] + list((v & 0xFFFFFFFF).to_bytes(4, "big"))
    return [0xD3] + list((v & (2 ** 64 - 1)).to_bytes(8, "big"))


def mp_str(s):
    b = list(s.encode("utf-8")) if isinstance(s, str) else list(s)
    n = len(b)
    if n < 32: return [0xA0 | n] + b
    if n < 256: return [0xD9, n] + b
    return [0xDA] + list(n.to_bytes(2, "big")) + b


def mp_arr(n):
    return [0x90 | n] if n < 16 else [0xDC] + list(n.to_bytes(2, "big"))


def mp_map(n):
    return [0x80 | n] if n < 16 else [0xDE] + list(n.to_bytes(2, "big"))


def mp_val(v):
    if v is None: return [0xC0]
    if v is True: return [0xC3]
    if v is False: return [0xC2]
    if isinstance(v, int): return mp_int(v)
    if isinstance(v, float):
        import struct
        return [0xCB] + list(struct.pack(">d", v))
    if isinstance(v, str): return mp_str(v)
    if isinstance(v, list):
        out = mp_arr(len(v))
        for e in v: out += mp_val(e)
        return out
    if isinstance(v, dict):
        out = mp_map(len(v))
        for k, e in v.items(): out += mp_str(k) + mp_val(e)
        return out
    raise ValueError(v)


# ---- sample values per target ----------------------------------------------------------------------------
def rand_text(rng):
    pieces = ["", "a", "plain", "with,comma", 'q"uote', "line\nbreak", "é", "€", "😀", " lead", "0", "-1", "true", "x" * 40, "y" * 300]
    return "".join(rng.choice(pieces) for _ in range(rng.choice([0, 1, 1, 2, 3])))


def rand_int(rng):
    return rng.choice([0, 1, -1, 127, 128, 255, 256, -128, -129, 65535, 65536, 2 ** 31 - 1, -2 ** 31, rng.randrange(-10 ** 6, 10 ** 6)])


def value_for(rng, target):
    if target == "i32": return rand_int(rng)
    if target == "str": return rand_text(rng)
    if target == "vi": return [rand_int(rng) for _ in range(rng.choice([0, 1, 3, 17]))]
    if target in ("a4", "ca4"): return [rand_int(rng) for _ in range(rng.choice([0, 1, 3, 4, 4, 5, 6, 9, 40]))]
    if target == "vs": return [rand_text(rng) for _ in range(rng.choice([0, 1, 3]))]
    if target == "vvi": return [[rand_int(rng) for _ in range(rng.choice([0, 1, 3]))] for _ in range(rng.choice([0, 1, 3]))]
    if target == "msi": return {"k%d" % i: rand_int(rng) for i in range(rng.choice([0, 1, 3]))}
    if target == "outer":
        return {"id": rand_int(rng), "name": rand_text(rng), "nums": [rand_int(rng) for _ in range(rng.choice([0, 2, 5]))],
                "inner": {"a": rand_int(rng), "s": rand_text(rng)}, "m": {"k%d" % i: rand_int(rng) for i in range(rng.choice([0, 2]))},
                "opt": rng.choice([None, rand_int(rng)]), "flag": rng.choice([True, False]), "d": rng.choice([0.0, 1.5, -2.25, 1e300])}
    if target == "vouter": return [value_for(rng, "outer") for _ in range(rng.choice([0, 1, 2]))]
    if target == "rows": return [{"x": rand_int(rng), "y": rand_text(rng), "z": rng.choice([0.0, 1.5, -2.25]), "b": rng.choice([True, False])} for _ in range(rng.choice([1, 2, 5]))]
    raise ValueError(target)


def xml_escape(s):
    return s.replace("&", "&amp;").replace("<", "&lt;").replace(">", "&gt;")


def to_xml(v, name):
    if isinstance(v, dict):
        return "<%s>%s</%s>" % (name, "".join(to_xml(e, k) for k, e in v.items()), name)
    if isinstance(v, list):
        return "<%s>%s</%s>" % (name, "".join(to_xml(e, "object" if isinstance(e, dict) else "array" if isinstance(e, list) else "value") for e in v), name)
    if v is None: return "<%s/>" % name
    if v is True: return "<%s>true</%s>" % (name, name)
    if v is False: return "<%s>false</%s>" % (name, name)
    return "<%s>%s</%s>" % (name, xml_escape(str(v)), name)


def csv_cell(v):
    s = "true" if v is True else "false" if v is False else str(v)
    if any(c in s for c in ',"\r\n'):
        s = '"' + s.replace('"', '""') + '"'
    return s


def encode(archive, target, v):
    if archive == "mp":
        return mp_val(v)
    if archive == "json":
        return list(_json.dumps(v, ensure_ascii=False).encode("utf-8"))
    if archive == "xml":
        root = "array" if isinstance(v, list) else "root"
        return list(('<?xml version="1.0"?>' + to_xml(v, root)).encode("utf-8"))
    if archive == "csv":
        rows = v
        lines = ["x,y,z,b"] + [",".join(csv_cell(r[k]) for k in ("x", "y", "z", "b")) for r in rows]
        return list(("\r\n".join(lines) + "\r\n").encode("utf-8"))
    raise ValueError(archive)


TARGETS = {"mp": ["i32", "str", "vi", "vs", "vvi", "msi", "outer", "vouter", "rows"],
           "json": ["i32", "str", "vi", "vs", "vvi", "msi", "outer", "vouter", "rows"],
           "xml": ["vi", "vs", "vvi", "msi", "outer", "vouter", "rows"],
           "csv": ["rows"]}


# targets that exist for loading only (fixed-size arrays: size mismatch between document and target)
LOAD_TARGETS = {a: list(t) + ([] if a == "csv" else ["a4", "ca4"]) for a, t in TARGETS.items()}


def mutate(rng, bs):
    bs = list(bs)
    k = rng.random()
    if not bs:
        return [rng.randrange(256) for _ in range(rng.choice([1, 2, 5]))]
    if k < 0.3:
        i = rng.randrange(len(bs)); bs[i] = rng.choice([0, 0xFF, 0x80, 0xC1, 0xDD, 0xDF, 0x91, 0x81, bs[i] ^ (1 << rng.randrange(8)), rng.randrange(256)])
    elif k < 0.5:
        bs = bs[:rng.randrange(len(bs) + 1)]
    elif k < 0.65:
        i = rng.randrange(len(bs) + 1); bs[i:i] = [rng.randrange(256) for _ in range(rng.choice([1, 2, 8]))]
    elif k < 0.8:
        i = rng.randrange(len(bs)); j = min(len(bs), i + rng.choice([1, 2, 4, 16])); del bs[i:j]
    elif k < 0.9:
        i = rng.randrange(len(bs)); bs = bs[:i] + bs[i:i + rng.choice([1, 4, 16])] * rng.choice([2, 5]) + bs[i:]
    else:
        bs = [rng.randrange(256) for _ in range(rng.choice([1, 3, 10, 60]))]
    return bs
