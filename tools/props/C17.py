"""C17 — validation reports exactly the failing fields and rules, after a full load."""

THEOREMS = [
    "BSVerif.Props.C17.throws_iff",
    "BSVerif.Props.C17.reports_exact",
    "BSVerif.Props.C17.reports_capped_below",
    "BSVerif.Props.C17.reports_capped",
    "BSVerif.Props.C17.passing_fields_loaded",
    "BSVerif.Props.C17.trace_eq_failing",
    "BSVerif.Props.C17.required_semantics",
    "BSVerif.Props.C17.range_semantics",
    "BSVerif.Props.C17.minSize_semantics",
    "BSVerif.Props.C17.maxSize_semantics",
    "BSVerif.Props.C17.check_iff_fails",
    "BSVerif.Props.C17.required_default_message",
]
RULE = ("fixed C++ classes (flat: int64/string/optional/vector fields; nested; class inside vector; class inside map) whose KeyValues "
        "carry 4 runtime-configured validator slots each (the REAL Required/Range/MinSize/MaxSize/Email/PhoneNumber functors and custom "
        "lambdas, default and custom messages, any subset and order) x documents in which each field is present-valid, at / just inside / "
        "just outside each bound, absent, nil or of another kind (skipped) x maxValidationErrors in {0,1,2,3,4,6} x shuffled field order in the "
        "document; loaded from MsgPack built by an independent encoder; non-trivial = a ValidationException was thrown; distinct = distinct op lines")
EXHAUSTIVE = {"quick": False, "thorough": False}
ASSUMPTIONS = ["Email and PhoneNumber are exercised on a fixed list of addresses/numbers with the expected classification carried in the op; "
               "their character-level rules are not modelled",
               "keys of one object are distinct (then the error paths are distinct); array positions in paths are the code's 1-based positions",
               "the MsgPack archive; the three text archives build paths the same way but are not run here",
               "integer<->boolean funnelling (C04) is not generated"]
TRUSTED = ["runtime-configured validator slots in harness/ops_valid.cpp dispatch to the real functors of validators.h"]

CAPS = [0, 1, 2, 3]


def hexs(s):
    return "".join("%02x" % b for b in s.encode()) if s else "-"


GOOD_EMAILS = ["a@b.com", "john.smith@mail.example.org", "x_y+z@sub-domain.io"]
BAD_EMAILS = ["ab", "a@", "@b.com", "a b@c.com", "a..b@c.com", ".a@b.com", "a@b..com", "a@-b.com"]
GOOD_PHONES = ["+123456789", "+1 (234) 567-89-00", "+44 20 7946 0958",
               "+1234567", "+123456789012345", "+1 (234) 567-89-01 2345", "+12 345 67"]      # exactly 7 and exactly 15 digits: both bounds are inclusive
BAD_PHONES = ["12345678", "+123", "+12-", "+1 ((23) 4567890", "+1234567a89", "+1234567890123456",
              "+123456", "+12 (345) 6", "+1 (234) 567-89-01 23456"]                               # 6 and 16 digits

INT_VALIDATORS = ["R", "R!", "G1:10", "G!-5:5", "G3:3", "Ce", "Ca", "Cu"]
INT_VALUES = ["i5", "i1", "i10", "i2", "i9", "i0", "i11", "i-5", "i-6", "i3", "i4", "i-1000", "i70000", None, "n", "s78", "a1,i1", "d3ff0000000000000"]
STR_VALIDATORS = ["R", "R!", "N2", "X5", "N!3", "X!3", "N0", "X0", "Ce", "Ca", "Cu"]
STR_VALUES = ["s-", "s61", "s6162", "s616263", "s61626364", "s6162636465", "s616263646566", None, "n", "i5", "a0"]
OPT_VALIDATORS = ["R", "R!", "Ca", "Cu"]
OPT_VALUES = ["i7", "i0", None, "n", "s78"]
VEC_VALIDATORS = ["R", "N1", "X3", "N!2", "X!2", "Ce", "Cu"]
VEC_VALUES = ["a0", "a1,i1", "a2,i1,i2", "a3,i1,i2,i3", "a4,i1,i2,i3,i4", "a2,i1,s78", None, "n", "i5", "m0"]
FIELD = {"i": (INT_VALIDATORS, INT_VALUES), "s": (STR_VALIDATORS, STR_VALUES), "o": (OPT_VALIDATORS, OPT_VALUES), "v": (VEC_VALIDATORS, VEC_VALUES)}


def nontrivial(op, impl):
    return impl.startswith("validation")


def obj(entries):
    return ",".join(["m%d" % len(entries)] + ["s%s,%s" % (hexs(k), v) for k, v in entries])


def cfg_str(cfg):
    parts = ["%s=%s" % (k, ",".join(v)) for k, v in cfg.items() if v]
    return ";".join(parts) if parts else "-"


def lists_for(validators, rng, thorough):
    out = [[v] for v in validators]
    for a in validators:
        for b in validators:
            if a != b and (thorough or rng.random() < 0.35):
                out.append([a, b])
    for _ in range(12 if thorough else 5):
        out.append(rng.sample(validators, 3))
        out.append(rng.sample(validators, 4))
    return out


def rand_cfg(rng, fields, p_empty=0.25):
    cfg = {}
    for f in fields:
        vals = FIELD[f][0]
        if rng.random() < p_empty:
            continue
        cfg[f] = rng.sample(vals, rng.choice([1, 1, 2, 2, 3, 4]))
    return cfg


def rand_flat_entries(rng, fields="isov", p_absent=0.2):
    e = []
    for f in fields:
        v = rng.choice(FIELD[f][1])
        if v is None or rng.random() < p_absent * 0.3:
            continue
        e.append((f, v))
    rng.shuffle(e)
    if rng.random() < 0.2:
        e.insert(rng.randrange(0, len(e) + 1), ("zz", "i1"))      # a key nobody asks for
    return e


def op(cls, cap, cfg, doc):
    return "val.load %s %d %s %s" % (cls, cap, cfg_str(cfg), doc)


def gen(tier, rng, boost=1):
    thorough = tier != "quick"
    caps = CAPS if not thorough else [0, 1, 2, 3, 4, 6]
    ops = []
    # one field under the microscope: every value x many validator lists x caps; the other fields fail or pass around it
    for f, (validators, values) in FIELD.items():
        for vl in lists_for(validators, rng, thorough):
            for val in values:
                for cap in (caps if len(vl) > 1 else [0, 1]):
                    others = rand_cfg(rng, [x for x in "isov" if x != f], p_empty=0.5)
                    cfg = dict(others)
                    cfg[f] = vl
                    entries = [e for e in rand_flat_entries(rng) if e[0] != f]
                    if val is not None:
                        entries.insert(rng.randrange(0, len(entries) + 1), (f, val))
                    ops.append(op("flat", cap, cfg, obj(entries)))
    # Email / PhoneNumber: exercised with the expected classification
    for cap in (0, 1):
        for e in GOOD_EMAILS:
            ops.append(op("flat", cap, {"s": ["R", "E+"]}, obj([("s", "s" + hexs(e))])))
        for e in BAD_EMAILS:
            ops.append(op("flat", cap, {"s": ["E-", "X64"]}, obj([("s", "s" + hexs(e))])))
        for p in GOOD_PHONES:
            ops.append(op("flat", cap, {"s": ["P+", "R"]}, obj([("s", "s" + hexs(p))])))
        for p in BAD_PHONES:
            ops.append(op("flat", cap, {"s": ["N1", "P-"]}, obj([("s", "s" + hexs(p))])))
        ops.append(op("flat", cap, {"s": ["E-", "P-", "R"]}, obj([])))       # absent: Email/Phone pass, Required fails
        ops.append(op("flat", cap, {"s": ["E+", "P+", "R"]}, obj([("s", "n")])))
    # all fields at once
    for _ in range((1200 if not thorough else 60000) * boost):
        cfg = rand_cfg(rng, "isov")
        ops.append(op("flat", rng.choice(caps), cfg, obj(rand_flat_entries(rng))))
    # root value that is not an object, empty object
    for d in ("n", "i5", "a0", "m0"):
        for cap in (0, 1):
            ops.append(op("flat", cap, {"i": ["R"], "s": ["R", "N1"]}, d))
    # nested
    for _ in range((500 if not thorough else 20000) * boost):
        cfg = rand_cfg(rng, "isov", p_empty=0.4)
        if rng.random() < 0.7:
            cfg["n"] = rng.sample(["R", "R!", "Ca", "Cu"], rng.choice([1, 2]))
        if rng.random() < 0.7:
            cfg["k"] = rng.sample(INT_VALIDATORS, rng.choice([1, 2, 3]))
        entries = []
        r = rng.random()
        if r < 0.7:
            entries.append(("n", obj(rand_flat_entries(rng))))
        elif r < 0.85:
            entries.append(("n", rng.choice(["n", "i5", "a0", "s78"])))
        kv = rng.choice(INT_VALUES)
        if kv is not None:
            entries.append(("k", kv))
        rng.shuffle(entries)
        ops.append(op("nested", rng.choice(caps), cfg, obj(entries)))
    # class inside vector
    for _ in range((500 if not thorough else 20000) * boost):
        cfg = rand_cfg(rng, "isov", p_empty=0.4)
        if rng.random() < 0.7:
            cfg["items"] = rng.sample(["R", "N1", "N2", "X1", "X2", "N!3", "Ce", "Cu"], rng.choice([1, 2, 3]))
        r = rng.random()
        if r < 0.8:
            n = rng.choice([0, 1, 2, 3, 4])
            items = [obj(rand_flat_entries(rng)) if rng.random() < 0.85 else rng.choice(["n", "i5", "a0"]) for _ in range(n)]
            entries = [("items", ",".join(["a%d" % n] + items))]
        elif r < 0.9:
            entries = [("items", rng.choice(["n", "i5", "m0"]))]
        else:
            entries = []
        ops.append(op("vec", rng.choice(caps), cfg, obj(entries)))
    # class inside map
    for _ in range((500 if not thorough else 20000) * boost):
        cfg = rand_cfg(rng, "isov", p_empty=0.4)
        if rng.random() < 0.7:
            cfg["m"] = rng.sample(["R", "N1", "N2", "X1", "X2", "X!0", "Ce", "Cu"], rng.choice([1, 2, 3]))
        r = rng.random()
        if r < 0.8:
            keys = rng.sample(["a", "b", "c", "d", "zz", "key"], rng.choice([0, 1, 2, 3]))
            items = [(k, obj(rand_flat_entries(rng)) if rng.random() < 0.85 else rng.choice(["n", "i5", "a0"])) for k in keys]
            entries = [("m", obj(items))]
        elif r < 0.9:
            entries = [("m", rng.choice(["n", "i5", "a0"]))]
        else:
            entries = []
        ops.append(op("map", rng.choice(caps), cfg, obj(entries)))
    return ops
