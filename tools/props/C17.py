"""C17 — validation reports exactly the failing fields and rules, after a full load."""

TEXT_THEOREMS = [
    "BSVerif.Props.C17Text.phone_digit_bounds_inclusive",
    "BSVerif.Props.C17Text.phone_not_loaded_passes",
    "BSVerif.Props.C17Text.email_not_loaded_passes",
    "BSVerif.Props.C17Text.phone_accept_sound",
    "BSVerif.Props.C17Text.phone_reject_sound",
    "BSVerif.Props.C17Text.phone_pass_not_rejected",
    "BSVerif.Props.C17Text.phone_total",
    "BSVerif.Props.C17Text.phone_nested_message_unreachable",
    "BSVerif.Props.C17Text.email_pass_iff",
    "BSVerif.Props.C17Text.email_accept_sound",
    "BSVerif.Props.C17Text.email_reject_sound",
    "BSVerif.Props.C17Text.email_pass_not_rejected",
    "BSVerif.Props.C17Text.email_total",
    "BSVerif.Props.C17Text.spec_verdicts_consistent",
    "BSVerif.Props.C17Text.text_constants_match_code",
]

THEOREMS = [
    "BSVerif.Props.C17.throws_iff",
    "BSVerif.Props.C17.reports_exact",
    "BSVerif.Props.C17.reports_capped_below",
    "BSVerif.Props.C17.reports_capped",
    "BSVerif.Props.C17.passing_fields_loaded",
    "BSVerif.Props.C17.trace_eq_failing",
    "BSVerif.Props.C17.required_semantics",
    "BSVerif.Props.C17.range_semantics",
    "BSVerif.Props.C17.minSize_semantics",
    "BSVerif.Props.C17.maxSize_semantics",
    "BSVerif.Props.C17.check_iff_fails",
    "BSVerif.Props.C17.required_default_message",
    "BSVerif.Props.C17.enum_loaded_iff_registered_name",
    "BSVerif.Props.C17.enum_field_loaded_iff",
    "BSVerif.Props.C17.enum_not_loaded_untouched",
    "BSVerif.Props.C17.enum_lookup_eq_spec",
    "BSVerif.Props.C17.enum_table_matches_code",
    "BSVerif.Props.C17.throwError_without_mismatch",
    "BSVerif.Props.C17.throwError_mismatch",
    "BSVerif.Props.C17.throwError_mismatch_uncapped",
    "BSVerif.Props.C17.throwError_never_ok_on_mismatch",
] + TEXT_THEOREMS
RULE = ("fixed C++ classes (flat: int64/string/optional/vector/REGISTERED-ENUM fields; nested; class inside vector; class inside map) whose "
        "KeyValues carry 4 runtime-configured validator slots each (the REAL Required/Range/MinSize/MaxSize/Email/PhoneNumber functors and custom "
        "lambdas incl. isLoaded-aware and value-only ones, default and custom messages, any subset and order) x documents in which each field is "
        "present-valid, at / just inside / just outside each bound, absent, nil or of another kind (skipped) x maxValidationErrors in "
        "{0,1,2,3,4,6} x shuffled field order in the document; the enum field holds every registered name, the names in other letter case, "
        "unknown names (empty, prefixes, one char longer, trailing/leading space, one char changed, a byte >= 0x80, an embedded NUL, digits), "
        "numbers, nil, arrays, maps or is absent; every op shape also under MismatchedTypesPolicy::ThrowError (val.loadt: a mismatched value in "
        "every position among fields whose validators fail, caps at / around the number of fields failing before it); "
        "loaded from MsgPack built by an independent encoder. PLUS the real PhoneNumber / Email functors called directly "
        "(val.phone* / val.email*) on std::string, const char*, u16string, u32string, wstring: numbers of the documented shape with "
        "min-2..max+2 digits for 13 (min,max,plus) configurations incl. min = max and min > max; every single-unit deletion / replacement / "
        "insertion (35 boundary units: neighbours of every character class, NUL, >= 0x80; wide units whose low byte is an allowed character) of "
        "valid numbers and addresses; every unit value 0..255 in every kind of position; every part of an address at / below / over its "
        "limit (local 64, label 63, domain 255, total 254); dots, '@', hyphens, quoted / commented / literal forms; random strings over "
        "the two alphabets; not-loaded values. non-trivial = a ValidationException was thrown (val.load) / a ValidationException or MismatchedTypes was thrown (val.loadt) / the functor answered for a "
        "loaded value (val.phone*, val.email*); distinct = distinct op lines")
EXHAUSTIVE = {"quick": False, "thorough": False}
ASSUMPTIONS = ["inside a LOAD (val.load) Email / PhoneNumber still carry the expected classification in the op (fixed lists); their "
               "character-level rules are modelled and judged by the direct ops val.email* / val.phone*",
               "Email: strings shorter than 2^31 units (str.size() is narrowed to int; the model has a distinguished outcome beyond)",
               "the Spec of the text validators is three-valued: where the documentation is silent (leading/trailing/double spaces, spaces "
               "around a dash, several '+', '+' inside parentheses, dash next to a parenthesis, empty parentheses; a label beginning with a "
               "digit, an address longer than 254 units) the oracle answers nospec and only the correspondence with the model applies",
               "keys of one object are distinct (then the error paths are distinct); array positions in paths are the code's 1-based positions",
               "the MsgPack archive; the three text archives build paths the same way but are not run here",
               "integer<->boolean funnelling (C04) is not generated",
               "enum: the registered names are ASCII; a document byte >= 0x80 reaches std::tolower as a negative int (outside the C "
               "standard's domain of tolower; glibc defines it) and never equals a registered character; the process runs in the \"C\" locale",
               "ThrowError (val.loadt): a load that meets no mismatched value runs the code of the Skip load (the policy is consulted only at a "
               "mismatch) - the model says so by definition, the correspondence run checks it; bin / ext / timestamp / bool tokens and keys "
               "that are not strings are not generated"]
TRUSTED = ["harness/valid_enum.h is the one registration of the enum, shared by harness/ops_valid.cpp and harness/dump/dump_validenum.cpp",
           "runtime-configured validator slots in harness/ops_valid.cpp dispatch to the real functors of validators.h",
           "harness/ops_valid.cpp recognises the PhoneNumber message class from the default message text",
           "harness/dump/dump_textvalid.cpp reads the function-local tables/limits of Email off the compiled functor by probing"]

CAPS = [0, 1, 2, 3]


def hexs(s):
    return "".join("%02x" % b for b in s.encode()) if s else "-"


GOOD_EMAILS = ["a@b.com", "john.smith@mail.example.org", "x_y+z@sub-domain.io"]
BAD_EMAILS = ["ab", "a@", "@b.com", "a b@c.com", "a..b@c.com", ".a@b.com", "a@b..com", "a@-b.com"]
GOOD_PHONES = ["+123456789", "+1 (234) 567-89-00", "+44 20 7946 0958",
               "+1234567", "+123456789012345", "+1 (234) 567-89-01 2345", "+12 345 67"]      # exactly 7 and exactly 15 digits: both bounds are inclusive
BAD_PHONES = ["12345678", "+123", "+12-", "+1 ((23) 4567890", "+1234567a89", "+1234567890123456",
              "+123456", "+12 (345) 6", "+1 (234) 567-89-01 23456"]                               # 6 and 16 digits

INT_VALIDATORS = ["R", "R!", "G1:10", "G!-5:5", "G3:3", "Ce", "Ca", "Cu"]
INT_VALUES = ["i5", "i1", "i10", "i2", "i9", "i0", "i11", "i-5", "i-6", "i3", "i4", "i-1000", "i70000", None, "n", "s78", "a1,i1", "d3ff0000000000000"]
STR_VALIDATORS = ["R", "R!", "N2", "X5", "N!3", "X!3", "N0", "X0", "Ce", "Ca", "Cu"]
STR_VALUES = ["s-", "s61", "s6162", "s616263", "s61626364", "s6162636465", "s616263646566", None, "n", "i5", "a0"]
OPT_VALIDATORS = ["R", "R!", "Ca", "Cu"]
OPT_VALUES = ["i7", "i0", None, "n", "s78"]
VEC_VALIDATORS = ["R", "N1", "X3", "N!2", "X!2", "Ce", "Cu"]
VEC_VALUES = ["a0", "a1,i1", "a2,i1,i2", "a3,i1,i2,i3", "a4,i1,i2,i3,i4", "a2,i1,s78", None, "n", "i5", "m0"]
# the registered enum (harness/valid_enum.h): names Low Mid High = values 0 1 2, initial value Mid.
# Validators that compile for an enum: Required, Range<ValTone> (custom message), custom lambdas.
ENUM_VALIDATORS = ["R", "R!", "G!0:1", "G!1:2", "G!2:2", "G!0:0", "Ce", "Ca", "Cu", "Cv"]


def sb(b):
    """string token from raw bytes"""
    if isinstance(b, str):
        b = b.encode("latin-1")
    return "s" + ("".join("%02x" % x for x in b) if b else "-")


ENUM_NAMES = ["Low", "Mid", "High"]
ENUM_OTHER_CASE = ["low", "LOW", "lOw", "mid", "MID", "miD", "high", "HIGH", "hIgH", "HIGh"]
ENUM_UNKNOWN = ["", "L", "Lo", "Lowx", "low ", " Low", "Low ", "Lov", "Kow", "Lpw", "Mie", "Lid", "Miw", "Hig", "Highh", "Higi", "Gigh", "H\x69gh\x00", "Low\x00",
                "Lo\x00", "L\xf6w", "L\xefw", "\xccow", "L\x4fW\xff", "l\x8fw", "0", "1", "2", "Mid,High", "LowMid", "None", "@id", "`id", "Mi\x44\x00", "[id", "Mi$"]
ENUM_VALUES = ([sb(n) for n in ENUM_NAMES] + [sb(n) for n in ENUM_OTHER_CASE] + [sb(n) for n in ENUM_UNKNOWN] +
               ["i0", "i1", "i2", "i-1", "i77", "d3ff0000000000000", None, "n", "a0", "a1,s4c6f77", "a2,s4d6964,s4d6964", "m0", "m1,s6c6f77,i1"])
FIELD = {"i": (INT_VALIDATORS, INT_VALUES), "s": (STR_VALIDATORS, STR_VALUES), "o": (OPT_VALIDATORS, OPT_VALUES), "v": (VEC_VALIDATORS, VEC_VALUES),
         "e": (ENUM_VALIDATORS, ENUM_VALUES)}
FLAT = "isove"
# values that are loaded or are no mismatch under ThrowError (present-valid, absent, nil)
CLEAN = {"i": ["i5", "i1", "i10", "i0", "i11", "i-6", "i3", None, "n"],
         "s": ["s-", "s61", "s6162", "s616263646566", None, "n"],
         "o": ["i7", "i0", None, "n"],
         "v": ["a0", "a1,i1", "a2,i1,i2", "a4,i1,i2,i3,i4", "a2,i1,n", None, "n"],
         "e": [sb("Low"), sb("Mid"), sb("High"), sb("low"), sb("MID"), sb("hIgH"), None, "n"]}
# mismatched under ThrowError
DIRTY = {"i": ["s78", "a1,i1", "d3ff0000000000000", "m0"],
         "s": ["i5", "a0", "m0"],
         "o": ["s78", "a0", "d3ff0000000000000"],
         "v": ["i5", "m0", "s78", "a2,i1,s78", "a2,a0,i1", "a1,m0"],
         "e": [sb("Lo"), sb(""), sb("Lowx"), sb("low "), sb("Mie"), sb("L\xf6w"), "i1", "a1,s4c6f77", "m0", "d3ff0000000000000"]}


def nontrivial(op, impl):
    if op.startswith("val.loadt"):
        return impl.startswith("validation") or impl == "err mismatched"
    if op.startswith("val.load"):
        return impl.startswith("validation")
    return impl == "pass" or impl.startswith("fail:")


# ------------------------------------------------------------------------------------------------------------
# the text validators called directly: val.phone* / val.email*
# ------------------------------------------------------------------------------------------------------------
PHONE_CFGS = [(7, 15, 1), (7, 15, 0), (6, 12, 1), (10, 10, 1), (10, 10, 0), (1, 1, 0), (4, 6, 0), (1, 3, 1), (0, 0, 0), (0, 5, 0),
              (3, 2, 0), (15, 15, 1), (1, 40, 1)]
# units tried in every position of a valid string: the neighbours of each character class the validators test
# ('/' ':' around digits, ',' '.' around '+' '-', '\'' '*' around '(' ')', '@' 'A' 'Z' '[' '`' 'a' 'z' '{' around letters, '~' DEL),
# NUL, bytes >= 0x80
MUT_UNITS = [0x00, 0x09, 0x1f, 0x20, 0x21, 0x22, 0x27, 0x28, 0x29, 0x2a, 0x2b, 0x2c, 0x2d, 0x2e, 0x2f, 0x30, 0x35, 0x39, 0x3a, 0x3c, 0x40, 0x41,
             0x5a, 0x5b, 0x5f, 0x60, 0x61, 0x7a, 0x7b, 0x7e, 0x7f, 0x80, 0xa0, 0xe9, 0xff]
WIDE_UNITS = [0x100, 0x12b, 0x130, 0x140, 0x22d, 0x2e, 0x661, 0xff10, 0xff0b, 0xff20, 0xd800, 0xffff]       # low byte '+','0','@','-','.' : a truncating comparison would accept
WIDE32_UNITS = [0x10030, 0x1002b, 0x10040, 0x1f4de, 0x10ffff, 0x80000030, 0xffffff2d, 0xffffffff]


def units_of(text):
    return [ord(c) for c in text] if isinstance(text, str) else list(text)


def hexb(units):
    return "".join("%02x" % u for u in units) if units else "-"


def hexu(units):
    return ".".join("%x" % u for u in units) if units else "-"


def phone_op(cfg, units, loaded=1, kind=""):
    units = units_of(units)
    body = hexb(units) if kind in ("", "z") else hexu(units)
    return "val.phone%s %d %d %d %d %s" % (kind, cfg[0], cfg[1], cfg[2], loaded, body)


def email_op(units, loaded=1, kind=""):
    units = units_of(units)
    body = hexb(units) if kind in ("", "z") else hexu(units)
    return "val.email%s %d %s" % (kind, loaded, body)


def split_digits(rng, n):
    """n digits in groups"""
    groups = []
    while n > 0:
        k = min(n, rng.choice([1, 2, 2, 3, 3, 4, 5]))
        groups.append("".join(rng.choice("0123456789") for _ in range(k)))
        n -= k
    return groups


def phone_shape(rng, n, plus, style):
    """a number of the documented shape with exactly n digits (n >= 1)"""
    if style == "plain":
        groups = ["".join(rng.choice("0123456789") for _ in range(n))]
    else:
        groups = split_digits(rng, n)
    out = "+" if plus else ""
    prev_par = False
    for j, g in enumerate(groups):
        par = style in ("paren", "mixed") and rng.random() < (0.5 if style == "mixed" else 0.35)
        if style == "paren" and j == min(1, len(groups) - 1):
            par = True
        if j > 0:
            if style in ("dash", "mixed") and not par and not prev_par and rng.random() < (0.8 if style == "dash" else 0.4):
                out += "-"
            else:
                out += " "
        out += "(" + g + ")" if par else g
        prev_par = par
    return out


def mutations(units, alphabet):
    """every single-unit deletion, replacement and insertion"""
    out = []
    for i in range(len(units) + 1):
        if i < len(units):
            out.append(units[:i] + units[i + 1:])
        for a in alphabet:
            if i < len(units) and units[i] != a:
                out.append(units[:i] + [a] + units[i + 1:])
            out.append(units[:i] + [a] + units[i:])
    return out


PHONE_MISUSE = [
    "", " ", "+", "-", "(", ")", "()", "+()", "+ ", " +", "++1234567", "+ +1234567", "+1+234567", "1+234567", "+(+1)234567", "(+1) 234567",
    "+1234567-", "+1234567- ", "+1234567 -", "+1234567 - ", "-1234567", "+-1234567", " -1234567", "+123--4567", "+123- -4567", "+123 - 4567",
    "+123 -4567", "+123- 4567", "+123-(45)67", "+123 (45)-67", "+123(45)67", "+(123)4567", "+(123)-4567", "+1 (-23) 4567", "+1 (23-) 4567",
    "+1 (2-3) 4567", "+1 ((23)) 4567", "+1 ((23) 4567", "+1 (23)) 4567", "+1 (23) 45)67", "+1 (23 4567", "+1 23) 4567", "+1 ( 23 ) 4567",
    "+1 (2 3) 4567", "+1 () 234567", "+1 ( ) 234567", "+1 (23) (45) 67", "+1 (23)(45) 67", "(1234567)", "+(1234567)", "+(1234567", "+1234567(",
    "+1234567()", "+1234567 ()", "+1234567 )", ")1234567(", "+12  34567", "  +1234567", "+1234567  ", " +91 - 22 - 27782183 ", "+1\t234567", "+1.234.567",
    "+1/234567", "+1:234567", "+1234567a", "a+1234567", "+1234567\x00", "+123\x004567", "\x00+1234567", "+1234567\n", "+12345é7".encode("latin-1"),
    "+1234567890123456789012345678901234567890", "+" + "1" * 300, "+" + "1 " * 200, "(" * 3 + "1234567" + ")" * 3, "+1-2-3-4-5-6-7", "+1 2 3 4 5 6 7",
    "+(1) (2) (3) (4) (5) (6) (7)", "+1234567-8", "+1234567 8", "+1234567 (8)", "+555 (55) 555-55-55", "(55) 555 55 55", "555 5 55 55",
]


def gen_phone(tier, rng, boost):
    thorough = tier != "quick"
    ops = []
    seen_n = set()
    # digit counts at and around both bounds, every configuration, several documented shapes
    for cfg in PHONE_CFGS:
        lo, hi, plus = cfg
        counts = sorted({n for b in (lo, hi) for n in range(b - 2, b + 3) if n >= 0} | {0, 1})
        for n in counts:
            for style in ("plain", "space", "dash", "paren", "mixed"):
                for with_plus in ((1,) if plus else (0, 1)):
                    reps = 1 if style == "plain" else (3 if not thorough else 12)
                    for _ in range(reps * boost):
                        text = phone_shape(rng, n, with_plus, style) if n > 0 else ("+" if with_plus else "")
                        ops.append(phone_op(cfg, text))
                        if rng.random() < 0.15:
                            ops.append(phone_op(cfg, text, kind=rng.choice(["16", "32", "w", "z"])))
            # the plus is missing although required / present although optional
            ops.append(phone_op(cfg, phone_shape(rng, max(lo, 1), 0, "space")))
            ops.append(phone_op(cfg, phone_shape(rng, max(lo, 1), 1, "dash")))
    # hand-picked misuse of spaces, dashes, parentheses, plus
    for text in PHONE_MISUSE:
        for cfg in ((7, 15, 1), (7, 15, 0), (1, 40, 1), (0, 5, 0)):
            ops.append(phone_op(cfg, text))
        ops.append(phone_op((7, 15, 0), text, kind="z"))
        ops.append(phone_op((7, 15, 1), text, kind=rng.choice(["16", "32", "w"])))
        ops.append(phone_op((7, 15, 1), text, loaded=0))
    # every single-unit mutation of valid numbers
    bases = [((7, 15, 1), "+555 (55) 555-55-55"), ((7, 15, 0), "(55) 555 55 55"), ((7, 15, 0), "555 5 55 55"), ((6, 12, 1), "+12 345-67"),
             ((10, 10, 1), "+1234567890"), ((7, 7, 0), "123-45-67"), ((1, 3, 0), "(1) 2")]
    if thorough:
        bases += [(rng.choice(PHONE_CFGS[:7]), phone_shape(rng, rng.randrange(5, 13), rng.random() < 0.7, rng.choice(["space", "dash", "paren", "mixed"])))
                  for _ in range(40)]
    for cfg, base in bases:
        for m in mutations(units_of(base), MUT_UNITS):
            ops.append(phone_op(cfg, m))
    for cfg, base in bases[:3]:
        u = units_of(base)
        for i in range(len(u) + 1):
            for a in WIDE_UNITS:
                ops.append(phone_op(cfg, u[:i] + [a] + u[i + 1:], kind=rng.choice(["16", "w"])))
            for a in WIDE32_UNITS:
                ops.append(phone_op(cfg, u[:i] + [a] + u[i:], kind=rng.choice(["32", "w"])))
    # every unit value once in the middle of an otherwise valid number (the whole character classification)
    for c in range(256):
        ops.append(phone_op((6, 12, 1), units_of("+12") + [c] + units_of("3456")))
        ops.append(phone_op((6, 12, 0), [c] + units_of("123456")))
    for c in range(256, 256 + 128):
        ops.append(phone_op((6, 12, 1), units_of("+12") + [c] + units_of("3456"), kind="16"))
        ops.append(phone_op((6, 12, 1), units_of("+12") + [c + 0x10000 - 256] + units_of("3456"), kind="32"))
    # random strings over the alphabet of phone numbers (short: every state of the scanner is reached)
    alpha = "0123456789" + "+ -()" * 3 + "a"
    for _ in range((2500 if not thorough else 150000) * boost):
        n = rng.choice([0, 1, 2, 3, 4, 5, 6, 7, 8, 10, 12, 16])
        text = "".join(rng.choice(alpha) for _ in range(n))
        ops.append(phone_op(rng.choice([(1, 3, 0), (1, 3, 1), (2, 4, 0), (0, 0, 0), (4, 6, 1), (1, 40, 0)]), text, loaded=0 if rng.random() < 0.03 else 1,
                            kind=rng.choice(["", "", "", "z", "16", "32", "w"])))
    return ops


def label(rng, n, chars="abcdefghijklmnopqrstuvwxyzABCDEFGHIJKLMNOPQRSTUVWXYZ0123456789-"):
    """an RFC label of n units: starts with a letter, ends with a letter or digit"""
    if n <= 0:
        return ""
    s = [rng.choice("abcxyzABCXYZ")]
    for _ in range(n - 2):
        s.append(rng.choice(chars))
    if n > 1:
        s.append(rng.choice("abz019AZ"))
    return "".join(s)


ATEXT = "abcdefghijklmnopqrstuvwxyzABCDEFGHIJKLMNOPQRSTUVWXYZ0123456789!#$%&'*+-/=?^_`{|}~"


def atom(rng, n):
    return "".join(rng.choice(ATEXT) for _ in range(n))


def domain_of(rng, total, first=None):
    """a domain of exactly `total` units made of valid labels"""
    labels = []
    left = total
    if first is not None:
        labels.append(label(rng, first))
        left -= first
    while left > 0:
        if labels:
            left -= 1          # the dot
            if left <= 0:
                labels[-1] += "x" if len(labels[-1]) < 63 else ""
                break
        k = min(left, rng.choice([1, 2, 3, 5, 8, 20, 40, 63]))
        if left - k == 1:      # a dot cannot be last: make room
            k = left if left <= 63 else k - 1
        labels.append(label(rng, k))
        left -= k
    return ".".join(labels)


EMAIL_LITERALS = [
    "", " ", "@", "a", "a@", "@b", "@b.com", "a@b", "a@b.c", "a@b.com", "simple@example.com", "very.common@example.com", "x@example.com",
    "!#$%&'*+-/=?^_`{|}~@example.com", "0123456789@example.com", "A.B@C.D", "USER@EXAMPLE.COM", "User.Name+tag@Sub-Domain.Example.ORG",
    "abc.example.com", "a@b@example.com", "a@@b.com", "a@b.com@", "@@", "a b@example.com", "a\tb@example.com", "a@b c.com", " a@b.com", "a@b.com ",
    "\"john..doe\"@example.org", "\"a b\"@example.org", "\"a@b\"@example.org", "john(doe)@example.org", "(c)john@example.org", "john@example.org(c)",
    "john,doe@example.org", "john:doe;@example.org", "john<doe>@example.org", "<john@example.org>", "john\\doe@example.org", "john[doe]@example.org",
    "john\x7fdoe@example.org", "john\x00doe@example.org", "john@exam\x00ple.org", "john@example.org\x00", "\x00john@example.org",
    ".name@example.com", "name.@example.com", "first..last@example.com", "first...last@example.com", ".@example.com", "..@example.com", "a.b.c.d@example.com",
    "john@.example.com", "john@example.com.", "john@example..com", "john@.", "john@..", "john@.com", "john@com.", ".", "..", "a.", ".a", "a@b.", "a@.b",
    "john@-example.com", "john@example-.com", "john@example.-com", "john@example.com-", "john@ex--ample.com", "john@e-x-a-m-p-l-e.com", "john@-", "john@a-", "john@-a",
    "john@10example.com", "john@example10.com", "john@example.10com", "john@example.com1", "john@1.2.3.4", "john@123", "john@9", "john@a9", "john@a.9", "john@a.b9",
    "john@[1.2.3.4]", "john@[IPv6:2001:db8::1]", "john@[example.com]", "john@example_com", "john@exa_mple.com", "john@example+com", "john@example/com", "john@example*com",
    "john@example,com", "john@example:com", "john@example;com", "john@exam!ple.com", "john@exam@ple.com",
    "jöhn@example.com".encode("utf-8"), "john@exämple.com".encode("utf-8"), "jöhn@example.com".encode("latin-1"), "john@example.cöm".encode("latin-1"),
    "用户@例子.广告".encode("utf-8"), "john@xn--exmple-cua.com", "i.like.underscores@but_they_are_not_allowed_in_this_part",
]


def gen_email(tier, rng, boost):
    thorough = tier != "quick"
    ops = []
    for text in EMAIL_LITERALS:
        ops.append(email_op(text))
        ops.append(email_op(text, kind="z"))
        if not isinstance(text, bytes):
            ops.append(email_op([ord(c) for c in text], kind=rng.choice(["16", "32", "w"])))
        ops.append(email_op(text, loaded=0))
    # wide strings with real non-ASCII units, and units whose low byte is an allowed character
    for text in ["jöhn@example.com", "john@exämple.com", "用户@例子.广告", "john＠example.com", "john@example．com", "joŨn@example.com",
                 "john@exšmple.com", "john@exampleĮcom", "johnŀexample.com"]:
        for kind in ("16", "32", "w"):
            ops.append(email_op([ord(c) for c in text], kind=kind))
    # every part at, just below and just over its limit
    for n in (1, 2, 62, 63, 64, 65, 66, 100, 300):
        ops.append(email_op("a" * n + "@example.com"))
        ops.append(email_op(atom(rng, n) + "@example.com"))
        if n > 4:
            ops.append(email_op("ab." + "c" * (n - 3) + "@example.com"))          # dots count
            ops.append(email_op("a" * (n - 1) + ".@example.com"))
            ops.append(email_op("a" * (n - 2) + ".b@example.com"))
        ops.append(email_op([97] * n + units_of("@example.com"), kind=rng.choice(["16", "32", "w"])))
    for n in (1, 2, 61, 62, 63, 64, 65, 66, 127, 128, 200):
        ops.append(email_op("john@" + "a" * n + ".com"))
        ops.append(email_op("john@" + "a" * n))
        ops.append(email_op("john@example." + "a" * n))
        ops.append(email_op("john@sub." + label(rng, n) + ".com"))
        ops.append(email_op("john@" + "a" * (n - 1) + "-.com"))
        ops.append(email_op("john@" + "a" * (n - 1) + "1.com"))
        ops.append(email_op("john@a." + "b" * n + ".c." + "d" * n))
        ops.append(email_op(units_of("john@") + [97] * n + units_of(".com"), kind=rng.choice(["16", "32", "w"])))
    for total in (1, 2, 3, 63, 64, 127, 128, 188, 189, 190, 250, 251, 252, 253, 254, 255, 256, 257, 258, 300, 511, 512):
        for _ in range(2 if not thorough else 8):
            d = domain_of(rng, total)
            if len(d) != total:
                continue
            for local in ("a", "john.doe", "a" * 64, "a" * 65):
                ops.append(email_op(local + "@" + d))
        ops.append(email_op("a@" + "b" * total))                                      # one over-long label
    # well-formed addresses of every size and their single-unit mutations
    bases = ["simple@example.com", "very.common+tag@sub-domain.example.org", "a@b.c", "A1!#x.y_z@Ab-9.Cd", "x@y"]
    n_rand = 40 if not thorough else 1500
    valid = []
    for _ in range(n_rand * boost):
        local = ".".join(atom(rng, rng.choice([1, 1, 2, 3, 5, 8])) for _ in range(rng.choice([1, 1, 2, 3])))
        dom = ".".join(label(rng, rng.choice([1, 2, 3, 5, 9])) for _ in range(rng.choice([1, 2, 2, 3, 4])))
        valid.append(local + "@" + dom)
    for v in valid:
        ops.append(email_op(v))
        if rng.random() < 0.3:
            ops.append(email_op(v, kind=rng.choice(["z", "16", "32", "w"])))
    for base in bases + valid[:(6 if not thorough else 60)]:
        for m in mutations(units_of(base), MUT_UNITS):
            ops.append(email_op(m))
    for base in bases[:2]:
        u = units_of(base)
        for i in range(len(u) + 1):
            for a in WIDE_UNITS:
                ops.append(email_op(u[:i] + [a] + u[i + 1:], kind=rng.choice(["16", "w"])))
            for a in WIDE32_UNITS:
                ops.append(email_op(u[:i] + [a] + u[i:], kind=rng.choice(["32", "w"])))
    # every unit value in every kind of position (the whole character classification of both parts)
    for c in range(256):
        for pre, post in (("a", "b@ex.com"), ("", "@ex.com"), ("ab", "@ex.com"), ("ab@e", "x.com"), ("ab@", "x.com"), ("ab@x", ".com"), ("ab@ex.", "om"), ("ab@ex.co", "")):
            ops.append(email_op(units_of(pre) + [c] + units_of(post)))
    for c in list(range(256, 256 + 128)) + WIDE_UNITS:
        ops.append(email_op(units_of("a") + [c] + units_of("b@ex.com"), kind="16"))
        ops.append(email_op(units_of("ab@e") + [c] + units_of("x.com"), kind="w"))
        ops.append(email_op(units_of("ab@e") + [c + 0x10000] + units_of("x.com"), kind="32"))
    # random strings over the alphabet of addresses (short: every state of the scanner is reached)
    alpha = "ab1-" * 3 + "..@@" * 2 + "_+ A"
    for _ in range((2500 if not thorough else 150000) * boost):
        n = rng.choice([1, 2, 3, 4, 5, 6, 7, 8, 10, 12])
        text = "".join(rng.choice(alpha) for _ in range(n))
        ops.append(email_op(text, loaded=0 if rng.random() < 0.03 else 1, kind=rng.choice(["", "", "", "z", "16", "32", "w"])))
    return ops


def obj(entries):
    return ",".join(["m%d" % len(entries)] + ["s%s,%s" % (hexs(k), v) for k, v in entries])


def cfg_str(cfg):
    parts = ["%s=%s" % (k, ",".join(v)) for k, v in cfg.items() if v]
    return ";".join(parts) if parts else "-"


def lists_for(validators, rng, thorough):
    out = [[v] for v in validators]
    for a in validators:
        for b in validators:
            if a != b and (thorough or rng.random() < 0.35):
                out.append([a, b])
    for _ in range(12 if thorough else 5):
        out.append(rng.sample(validators, 3))
        out.append(rng.sample(validators, 4))
    return out


def rand_cfg(rng, fields, p_empty=0.25):
    cfg = {}
    for f in fields:
        vals = FIELD[f][0]
        if rng.random() < p_empty:
            continue
        cfg[f] = rng.sample(vals, rng.choice([1, 1, 2, 2, 3, 4]))
    return cfg


def rand_flat_entries(rng, fields=FLAT, p_absent=0.2):
    e = []
    for f in fields:
        v = rng.choice(FIELD[f][1])
        if v is None or rng.random() < p_absent * 0.3:
            continue
        e.append((f, v))
    rng.shuffle(e)
    if rng.random() < 0.2:
        e.insert(rng.randrange(0, len(e) + 1), ("zz", "i1"))      # a key nobody asks for
    return e


def op(cls, cap, cfg, doc, policy=""):
    return "val.load%s %s %d %s %s" % (policy, cls, cap, cfg_str(cfg), doc)


def clean_flat_entries(rng, dirty=0.0, fields=FLAT):
    """entries whose values are no mismatch under ThrowError, each replaced by a mismatched one with probability `dirty`"""
    e = []
    for f in fields:
        v = rng.choice(DIRTY[f]) if rng.random() < dirty else rng.choice(CLEAN[f])
        if v is None:
            continue
        e.append((f, v))
    rng.shuffle(e)
    if rng.random() < 0.2:
        e.insert(rng.randrange(0, len(e) + 1), ("zz", "i1"))
    return e


FAILING = {"i": ["R", "Ca", "G3:3", "Cu", "Ce", "G1:10"], "s": ["R", "Ca", "N2", "X0", "Cu", "Ce"], "o": ["R", "R!", "Ca", "Cu"],
           "v": ["R", "N1", "X!2", "Cu", "Ce"], "e": ["R", "R!", "Ca", "Cu", "Cv", "Ce", "G!0:0", "G!2:2"]}


def gen_throw(tier, rng, boost, caps):
    """MismatchedTypesPolicy::ThrowError"""
    thorough = tier != "quick"
    ops = []
    # one field under the microscope: every value of its list (loadable, nil, absent, every kind of mismatch); the others are clean and
    # their validators mostly fail, so that the cap is reached before / at / after the field
    for f, (validators, values) in FIELD.items():
        for val in values:
            for _ in range(3 if not thorough else 12):
                cfg = {x: rng.sample(FAILING[x], rng.choice([1, 2, 3])) for x in FLAT if rng.random() < 0.75}
                cfg[f] = rng.sample(validators, rng.choice([1, 2, 3]))
                entries = [e for e in clean_flat_entries(rng) if e[0] != f]
                if val is not None:
                    entries.insert(rng.randrange(0, len(entries) + 1), (f, val))
                for cap in rng.sample(caps, 2) if not thorough else caps:
                    ops.append(op("flat", cap, cfg, obj(entries), "t"))
    # every cap around the number of fields that fail before the mismatched one
    for f in FLAT:
        for bad in DIRTY[f]:
            for cap in range(0, 7):
                cfg = {x: rng.sample(FAILING[x], rng.choice([1, 2])) for x in FLAT}
                entries = [e for e in clean_flat_entries(rng) if e[0] != f] + [(f, bad)]
                rng.shuffle(entries)
                ops.append(op("flat", cap, cfg, obj(entries), "t"))
    # all fields at once, a few of them mismatched
    for _ in range((800 if not thorough else 40000) * boost):
        cfg = rand_cfg(rng, FLAT)
        ops.append(op("flat", rng.choice(caps), cfg, obj(clean_flat_entries(rng, dirty=rng.choice([0.0, 0.1, 0.3]))), "t"))
    for d in ("n", "i5", "a0", "m0", "s61", "d3ff0000000000000"):
        for cap in (0, 1):
            ops.append(op("flat", cap, {"i": ["R"], "e": ["R", "Cv"]}, d, "t"))
    # nested / class inside vector / class inside map
    n = (350 if not thorough else 15000) * boost
    for _ in range(n):
        cfg = rand_cfg(rng, FLAT, p_empty=0.4)
        dirty = rng.choice([0.0, 0.0, 0.1, 0.25])
        if rng.random() < 0.7:
            cfg["n"] = rng.sample(["R", "R!", "Ca", "Cu"], rng.choice([1, 2]))
        if rng.random() < 0.7:
            cfg["k"] = rng.sample(INT_VALIDATORS, rng.choice([1, 2, 3]))
        entries = []
        r = rng.random()
        if r < 0.75:
            entries.append(("n", obj(clean_flat_entries(rng, dirty))))
        elif r < 0.9:
            entries.append(("n", rng.choice(["n", "n", "i5", "a0", "s78"])))
        kv = rng.choice(CLEAN["i"] + (DIRTY["i"] if rng.random() < 0.3 else []))
        if kv is not None:
            entries.append(("k", kv))
        rng.shuffle(entries)
        ops.append(op("nested", rng.choice(caps), cfg, obj(entries), "t"))
    for _ in range(n):
        cfg = rand_cfg(rng, FLAT, p_empty=0.4)
        dirty = rng.choice([0.0, 0.0, 0.1, 0.25])
        if rng.random() < 0.7:
            cfg["items"] = rng.sample(["R", "N1", "N2", "X1", "X2", "N!3", "Ce", "Cu"], rng.choice([1, 2, 3]))
        r = rng.random()
        if r < 0.8:
            k = rng.choice([0, 1, 2, 3, 4])
            items = [obj(clean_flat_entries(rng, dirty)) if rng.random() < 0.85 else rng.choice(["n", "n", "i5", "a0"]) for _ in range(k)]
            entries = [("items", ",".join(["a%d" % k] + items))]
        elif r < 0.9:
            entries = [("items", rng.choice(["n", "i5", "m0"]))]
        else:
            entries = []
        ops.append(op("vec", rng.choice(caps), cfg, obj(entries), "t"))
    for _ in range(n):
        cfg = rand_cfg(rng, FLAT, p_empty=0.4)
        dirty = rng.choice([0.0, 0.0, 0.1, 0.25])
        if rng.random() < 0.7:
            cfg["m"] = rng.sample(["R", "N1", "N2", "X1", "X2", "X!0", "Ce", "Cu"], rng.choice([1, 2, 3]))
        r = rng.random()
        if r < 0.8:
            keys = rng.sample(["a", "b", "c", "d", "zz", "key"], rng.choice([0, 1, 2, 3]))
            items = [(k, obj(clean_flat_entries(rng, dirty)) if rng.random() < 0.85 else rng.choice(["n", "n", "i5", "a0"])) for k in keys]
            entries = [("m", obj(items))]
        elif r < 0.9:
            entries = [("m", rng.choice(["n", "i5", "a0"]))]
        else:
            entries = []
        ops.append(op("map", rng.choice(caps), cfg, obj(entries), "t"))
    return ops


def gen(tier, rng, boost=1):
    thorough = tier != "quick"
    caps = CAPS if not thorough else [0, 1, 2, 3, 4, 6]
    ops = []
    # one field under the microscope: every value x many validator lists x caps; the other fields fail or pass around it
    for f, (validators, values) in FIELD.items():
        for vl in lists_for(validators, rng, thorough):
            for val in values:
                for cap in (caps if len(vl) > 1 else [0, 1]):
                    others = rand_cfg(rng, [x for x in FLAT if x != f], p_empty=0.5)
                    cfg = dict(others)
                    cfg[f] = vl
                    entries = [e for e in rand_flat_entries(rng) if e[0] != f]
                    if val is not None:
                        entries.insert(rng.randrange(0, len(entries) + 1), (f, val))
                    ops.append(op("flat", cap, cfg, obj(entries)))
    # Email / PhoneNumber: exercised with the expected classification
    for cap in (0, 1):
        for e in GOOD_EMAILS:
            ops.append(op("flat", cap, {"s": ["R", "E+"]}, obj([("s", "s" + hexs(e))])))
        for e in BAD_EMAILS:
            ops.append(op("flat", cap, {"s": ["E-", "X64"]}, obj([("s", "s" + hexs(e))])))
        for p in GOOD_PHONES:
            ops.append(op("flat", cap, {"s": ["P+", "R"]}, obj([("s", "s" + hexs(p))])))
        for p in BAD_PHONES:
            ops.append(op("flat", cap, {"s": ["N1", "P-"]}, obj([("s", "s" + hexs(p))])))
        ops.append(op("flat", cap, {"s": ["E-", "P-", "R"]}, obj([])))       # absent: Email/Phone pass, Required fails
        ops.append(op("flat", cap, {"s": ["E+", "P+", "R"]}, obj([("s", "n")])))
    # all fields at once
    for _ in range((1200 if not thorough else 60000) * boost):
        cfg = rand_cfg(rng, FLAT)
        ops.append(op("flat", rng.choice(caps), cfg, obj(rand_flat_entries(rng))))
    # root value that is not an object, empty object
    for d in ("n", "i5", "a0", "m0"):
        for cap in (0, 1):
            ops.append(op("flat", cap, {"i": ["R"], "s": ["R", "N1"]}, d))
    # nested
    for _ in range((500 if not thorough else 20000) * boost):
        cfg = rand_cfg(rng, FLAT, p_empty=0.4)
        if rng.random() < 0.7:
            cfg["n"] = rng.sample(["R", "R!", "Ca", "Cu"], rng.choice([1, 2]))
        if rng.random() < 0.7:
            cfg["k"] = rng.sample(INT_VALIDATORS, rng.choice([1, 2, 3]))
        entries = []
        r = rng.random()
        if r < 0.7:
            entries.append(("n", obj(rand_flat_entries(rng))))
        elif r < 0.85:
            entries.append(("n", rng.choice(["n", "i5", "a0", "s78"])))
        kv = rng.choice(INT_VALUES)
        if kv is not None:
            entries.append(("k", kv))
        rng.shuffle(entries)
        ops.append(op("nested", rng.choice(caps), cfg, obj(entries)))
    # class inside vector
    for _ in range((500 if not thorough else 20000) * boost):
        cfg = rand_cfg(rng, FLAT, p_empty=0.4)
        if rng.random() < 0.7:
            cfg["items"] = rng.sample(["R", "N1", "N2", "X1", "X2", "N!3", "Ce", "Cu"], rng.choice([1, 2, 3]))
        r = rng.random()
        if r < 0.8:
            n = rng.choice([0, 1, 2, 3, 4])
            items = [obj(rand_flat_entries(rng)) if rng.random() < 0.85 else rng.choice(["n", "i5", "a0"]) for _ in range(n)]
            entries = [("items", ",".join(["a%d" % n] + items))]
        elif r < 0.9:
            entries = [("items", rng.choice(["n", "i5", "m0"]))]
        else:
            entries = []
        ops.append(op("vec", rng.choice(caps), cfg, obj(entries)))
    # class inside map
    for _ in range((500 if not thorough else 20000) * boost):
        cfg = rand_cfg(rng, FLAT, p_empty=0.4)
        if rng.random() < 0.7:
            cfg["m"] = rng.sample(["R", "N1", "N2", "X1", "X2", "X!0", "Ce", "Cu"], rng.choice([1, 2, 3]))
        r = rng.random()
        if r < 0.8:
            keys = rng.sample(["a", "b", "c", "d", "zz", "key"], rng.choice([0, 1, 2, 3]))
            items = [(k, obj(rand_flat_entries(rng)) if rng.random() < 0.85 else rng.choice(["n", "i5", "a0"])) for k in keys]
            entries = [("m", obj(items))]
        elif r < 0.9:
            entries = [("m", rng.choice(["n", "i5", "a0"]))]
        else:
            entries = []
        ops.append(op("map", rng.choice(caps), cfg, obj(entries)))
    # the enum field inside the nested shapes: every kind of value, Required / isLoaded-aware / value-only validators, every cap
    for val in ENUM_VALUES:
        for shape in ("nested", "vec", "map"):
            cfg = {"e": rng.sample(ENUM_VALIDATORS, rng.choice([1, 2, 3, 4]))}
            if rng.random() < 0.5:
                cfg["i"] = ["R"]
            inner = obj(([("e", val)] if val is not None else []) + ([("i", "i1")] if rng.random() < 0.5 else []))
            doc = {"nested": obj([("n", inner)]), "vec": obj([("items", "a2," + inner + "," + inner)]), "map": obj([("m", obj([("a", inner), ("b", inner)]))])}[shape]
            for cap in rng.sample(caps, 2):
                ops.append(op(shape, cap, cfg, doc))
    # MismatchedTypesPolicy::ThrowError
    ops += gen_throw(tier, rng, boost, caps)
    # the text validators on arbitrary strings
    ops += gen_phone(tier, rng, boost)
    ops += gen_email(tier, rng, boost)
    # the same loads through the std::istream overload of LoadObject (every 4th val.load op)
    ops += ["val.loads" + o[len("val.load"):] for i, o in enumerate(list(ops)) if o.startswith("val.load ") and i % 4 == 0]
    return ops
