"""C05 (reader-level part) — a skipped value consumes exactly that value.

Token level only: SkipValue / HandleMismatchedTypesPolicy / overflow-Skip of CMsgPackStringReader and
CMsgPackStreamReader. The scope-level part (array/object scopes, mIndex bookkeeping, other archives) is added
to this file by the scope-layer builder; everything here is prefixed `reader_`.
"""
from .mpgen import *

READER_THEOREMS = [
    "BSVerif.Props.C05.reader_skip_exact",
    "BSVerif.Props.C05.reader_skip_ext_exact",
    "BSVerif.Props.C05.reader_skip_only_wellformed",
    "BSVerif.Props.C05.reader_skip_rejects",
    "BSVerif.Props.C05.reader_skip_total",
    "BSVerif.Props.C05.reader_skip_one_object",
    "BSVerif.Props.C05.reader_skip_truncated",
    "BSVerif.Props.C05.reader_handleMismatch_skip",
    "BSVerif.Props.C05.reader_nil_always_skipped",
    "BSVerif.Props.C05.reader_handleMismatch_throw",
    "BSVerif.Props.C05.reader_int_mismatch_consumes_one",
    "BSVerif.Props.C05.reader_mismatchTail_skip",
    "BSVerif.Props.C05.reader_mismatch_consumes_one",
    "BSVerif.Props.C05.reader_f64_mismatch_consumes_one",
    "BSVerif.Props.C05.reader_str_mismatch_consumes_one",
]
SCOPE_THEOREMS = [
    "BSVerif.Props.C05.Scope.array_element_consumes_one",
    "BSVerif.Scope.skip_at",
    "BSVerif.Props.C05.Scope.array_close_skips_unread",
    "BSVerif.Props.C05.Scope.binary_scope_session",
    "BSVerif.Props.C05.Scope.open_binary_leaves_other_value",
    "BSVerif.Props.C05.Scope.array_binary_element_consumes_one",
    "BSVerif.Props.C05.Scope.root_binary_value_consumes_one",
    "BSVerif.Props.C05.Scope.binary_read_past_end",
    "BSVerif.Props.C03.get_correct",        # object scopes: a skipped member re-establishes the cursor invariant
]
THEOREMS = list(READER_THEOREMS) + SCOPE_THEOREMS
RULE = ("random nested well-formed objects (depth <= 4, every format width chosen at random by an independent encoder) followed by "
        "sentinel bytes: SkipValue, and one ReadValue/Read*Size of EVERY target kind with both policies Skip — the reader must return "
        "false at exactly the end of the object (mismatch) or of the number (overflow) with the target untouched; also nil under "
        "ThrowError; same ops on the stream reader incl. objects straddling the 256-byte chunk boundary; truncated objects must raise "
        "a parsing error; scope level: request histories with values of another kind requested under Skip (incl. ext values, timestamps, `bin` values requested as "
        "strings), array scopes left partly read, binary scopes (OpenBinaryScope in arrays, objects and at the root) read fully / partly / not at all and OpenBinaryScope on elements "
        "that are not bin (left in place, not counted), all followed by further requests, std::tuple at every subset of mismatched positions, shorter/longer arrays, also inside a class "
        "followed by another field (mp.tuple … obj); non-trivial = the reader returned false / skipped more than one byte; distinct = distinct op lines")
EXHAUSTIVE = {"quick": False, "thorough": False}
ASSUMPTIONS = ["nesting depth small enough for the C++ stack (SkipValueImpl recursion is unbounded: NOTES, C02)",
               "input length < 2^32, bytes < 256"]
TRUSTED = ["Spec.objects (balance counter) written from the MessagePack specification"]
TAIL = bytes([0xC3, 0x2A, 0xC0])


def nontrivial(op, impl):
    if op.startswith(("mp.scope", "mp.tuple")):
        return ";F" in impl or impl.startswith("F")
    t = impl.split(" ")
    return t[0] == "no" or (t[0] == "ok" and op.startswith("mp.skip") and int(t[-1]) > 1)


def _c07_only(kind, T):
    # these (kind, target) pairs are value reads whose recorded deviations belong to C07 (timestamp-96 order, NaN narrowing)
    return (T == "ts" and kind in ("ts", "ext")) or (T == "f32" and kind == "f64")


def reader_gen(tier, rng, boost=1):
    ops = []
    thorough = tier == "thorough"
    n = (1200 if not thorough else 25000) * boost
    for i in range(n):
        kind, d = rand_doc(rng, depth=rng.choice([1, 2, 3, 4]))
        pre = rng.choice([0, 0, 0, 3, 250, 253, 255, 256])
        for src in ("mem", "stream"):
            ops.append(f"mp.skip {src} {pre} {hx(d + TAIL)}")
        # every target, both policies Skip: a mismatched or out-of-range value must be consumed exactly
        for T in (ALL_TARGETS if i % 4 == 0 else rng.sample(ALL_TARGETS, 4)):
            src = rng.choice(["mem", "stream"])
            if not _c07_only(kind, T):
                ops.append(read_op(src, "skip", "skip", T, pre, d + TAIL))
        T = rng.choice([t for t in ALL_TARGETS if not _c07_only(kind, t)])
        ops.append(read_op(rng.choice(["mem", "stream"]), rng.choice(["skip", "throw"]), rng.choice(["skip", "throw"]), T, pre, d + TAIL))
        if i % 5 == 0 and len(d) < 80:
            for cut in range(1, len(d)):
                src = rng.choice(["mem", "stream"])
                ops.append(f"mp.skip {src} {pre} {hx(d[:cut])}")
                ops.append(read_op(src, "skip", "skip", rng.choice(ALL_TARGETS), pre, d[:cut]))
    # overflow under Skip: every integer format x narrower targets
    for v in INT_THRESHOLDS:
        if -U(63) <= v < U(64):
            for f in int_formats(v):
                for T in INT_TARGETS:
                    ops.append(read_op(rng.choice(["mem", "stream"]), "skip", rng.choice(["skip", "throw"]), T, 0, enc_int(v, f) + TAIL))
    # float 64 values beyond / at / inside the range of a float target: under Skip the out-of-range value is consumed, the target keeps its
    # content and the value is reported as NOT loaded (both readers)
    import struct
    for v in (3.5e38, -3.5e38, 1e300, -1e300, 1.7976931348623157e308, 3.4028234663852886e38, -3.4028234663852886e38, 3.4028235677973366e38,
              3.402823466385289e38, 1.5, -0.0, 1e-320):
        for src in ("mem", "stream"):
            for ovf in ("skip", "throw"):
                for pre in (0, 250):
                    ops.append(read_op(src, ovf, "skip", "f32", pre, b"\xCB" + struct.pack(">d", v) + TAIL))
    # nil is skipped (returned false) whatever the policy
    for T in ALL_TARGETS:
        for src in ("mem", "stream"):
            for mis in ("throw", "skip"):
                ops.append(read_op(src, "throw", mis, T, 0, b"\xC0" + TAIL))
    # wide containers
    for cnt, k in ((16, 2), (300, 2), (17, 4), (70, 4)):
        d = enc_arr(cnt, k) + b"".join(rand_scalar(rng, True)[1] for _ in range(cnt))
        m = enc_map(cnt, k) + b"".join(rand_scalar(rng, True)[1] for _ in range(2 * cnt))
        for src in ("mem", "stream"):
            for x in (d, m):
                ops.append(f"mp.skip {src} 0 {hx(x + TAIL)}")
                ops.append(read_op(src, "skip", "skip", "i32", 0, x + TAIL))
                ops.append(read_op(src, "skip", "skip", "str", 5, x + TAIL))
    return ops


def gen(tier, rng, boost=1):
    from .scopegen import gen_scope_ops
    ops = reader_gen(tier, rng, boost)
    # scope level: documents in which values of another kind are requested (Skip policy), memory and stream;
    # the oracle (abstract data model) demands that every untouched neighbour loads as if nothing had happened
    scope_ops = gen_scope_ops(tier, rng, boost, count=(600 if tier == "quick" else 10000) * boost)
    ops += [o for o in scope_ops if " skip " in o]
    ops += tuple_gen(tier, rng, boost)
    # the tuple inside an object, followed by another field: an array scope closed wherever the tuple stops
    from .scopegen import gen_tupobj_ops
    ops += gen_tupobj_ops(tier, rng, boost)
    # the text archives: values of another kind / out of range / fractional text for integer targets in XML and JSON documents under
    # the Skip policies (C08's generator): the skipped value must leave its target untouched and the neighbours must load
    from . import C08 as J
    jx = J.gen_c04_xml(rng, tier, boost)[: (400 if tier == "quick" else 20000)] + J.gen_c04_json(rng, tier, boost)[: (200 if tier == "quick" else 10000)]
    ops += [o for o in jx if o.split(" ")[3] != "tt"]          # at least one of the two policies is Skip
    return ops


def tuple_gen(tier, rng, boost=1):
    """std::tuple<int64,string,int64,bool> (types/std/tuple.h) loaded from arrays whose elements are of another kind at every
    subset of positions, shorter and longer arrays, non-arrays; both policies, memory and stream"""
    def sc(kind):
        if kind == "i": return "i" + str(rng.choice([0, 1, 7, -3, 200, 70000, -40000, 2**40]))
        if kind == "s": return "s" + bytes(rng.choice(b"abcXYZ") for _ in range(rng.randrange(0, 5))).hex()
        if kind == "t": return rng.choice(["t", "f"])
        if kind == "n": return "n"
        if kind == "d": return "d" + rng.choice(["3ff8000000000000", "4045000000000000"])
        if kind == "b": return "b" + bytes([1, 2]).hex()
    want = ["i", "s", "i", "t"]
    other = {"i": ["s", "n", "d", "b"], "s": ["i", "t", "n", "d"], "t": ["s", "n", "d"]}
    ops = []
    n = (150 if tier == "quick" else 3000) * boost
    for i in range(n):
        mask = i % 16 if i < 64 else rng.randrange(16)
        length = 4 if i % 3 else rng.choice([0, 1, 2, 3, 5, 6])
        toks = []
        for k in range(length):
            if k < 4:
                toks.append(sc(rng.choice(other[want[k]])) if (mask >> k) & 1 else sc(want[k]))
            else:
                toks.append(sc(rng.choice("isn")))
        doc = ",".join([f"a{length}"] + toks)
        for src in ("mem", "stream"):
            ops.append(f"mp.tuple {src} skip {doc}")
        if i % 4 == 0:
            ops.append(f"mp.tuple {rng.choice(('mem', 'stream'))} throw {doc}")
    for d in ("i3", "n", "s41", "m1,i1,i2", "t"):
        for src in ("mem", "stream"):
            for mis in ("skip", "throw"):
                ops.append(f"mp.tuple {src} {mis} {d}")
    return ops


def adjust_verdict(op, impl, verdict):
    """json./xml. ops are borrowed from C08 (numbers of another kind / out of range in every position, Skip policies): its recorded
    adapter findings are C08's business; here the question is only whether a skipped value left its target and neighbours alone"""
    if op.startswith(("json.", "xml.")) and verdict.startswith("known:"):
        return "ok"
    return verdict
