"""Shared generator pieces for the MsgPack token-level properties (C05 reader part, C06, C07).

Contains an INDEPENDENT MessagePack encoder (written from the specification's format table) that can
encode a value in every legal format, so that format widths can be chosen adversarially.
"""
import struct

U = lambda n: 2 ** n

# every threshold of the format table, +-2
_TH = [5, 7, 8, 15, 16, 31, 32, 63, 64]
POS_THRESHOLDS = sorted({max(0, U(k) + d) for k in _TH for d in (-2, -1, 0, 1, 2)} | {0, 1, 2, 3})
NEG_THRESHOLDS = sorted({-(U(k)) + d for k in (5, 7, 15, 31, 63) for d in (-2, -1, 0, 1, 2)} | {-1, -2, -3})
INT_THRESHOLDS = sorted(set(POS_THRESHOLDS) | set(NEG_THRESHOLDS))
LEN_THRESHOLDS = [0, 1, 2, 14, 15, 16, 17, 30, 31, 32, 33, 254, 255, 256, 257]
BIG_LENS = [65534, 65535, 65536, 65537]

INT_TYPES = {"u8": (0, U(8) - 1), "u16": (0, U(16) - 1), "u32": (0, U(32) - 1), "u64": (0, U(64) - 1),
             "i8": (-U(7), U(7) - 1), "i16": (-U(15), U(15) - 1), "i32": (-U(31), U(31) - 1), "i64": (-U(63), U(63) - 1)}
INT_TARGETS = ["bool", "u8", "u16", "u32", "u64", "char", "i8", "i16", "i32", "i64"]
ALL_TARGETS = ["nil"] + INT_TARGETS + ["f32", "f64", "str", "ts", "arr", "map", "bin"]

F32_SPECIAL = [0x00000000, 0x80000000, 0x00000001, 0x007FFFFF, 0x00800000, 0x3F800000, 0xBF800000, 0x7F7FFFFF, 0xFF7FFFFF,
               0x7F800000, 0xFF800000, 0x7FC00000, 0xFFC00000, 0x7FA00000, 0x7F800001, 0x7FFFFFFF, 0x00400000, 0x33800000,
               0x4048F5C3, 0x00000002, 0x80000001]
F64_SPECIAL = [0x0000000000000000, 0x8000000000000000, 0x0000000000000001, 0x000FFFFFFFFFFFFF, 0x0010000000000000,
               0x3FF0000000000000, 0x7FEFFFFFFFFFFFFF, 0xFFEFFFFFFFFFFFFF, 0x7FF0000000000000, 0xFFF0000000000000,
               0x7FF8000000000000, 0xFFF8000000000000, 0x7FF4000000000000, 0x7FF0000000000001, 0x7FFFFFFFFFFFFFFF,
               # around FLT_MAX and the float rounding boundaries
               0x47EFFFFFE0000000, 0x47EFFFFFE0000001, 0x47EFFFFFEFFFFFFF, 0x47EFFFFFF0000000, 0x47F0000000000000,
               0xC7EFFFFFE0000000, 0xC7EFFFFFE0000001, 0x47EFFFFFDFFFFFFF,
               # ties-to-even in the 24-bit significand: ...0 1000.. / ...1 1000..
               0x3FF0000010000000, 0x3FF0000030000000, 0x3FF0000010000001, 0x3FF000000FFFFFFF, 0x3FF0000020000000,
               # float subnormal range: 2^-126, 2^-127, 2^-149, 2^-150 (tie -> 0), just above, 2^-151
               0x3810000000000000, 0x3800000000000000, 0x36A0000000000000, 0x3690000000000000, 0x3690000000000001,
               0x3680000000000000, 0x380FFFFFFFFFFFFF, 0x380FFFFFE0000000, 0x380FFFFFF0000000, 0x36A8000000000000,
               0x400921FB54524550]


def hx(b):
    return b.hex() if b else "-"


def be(n, k):
    return (n % (1 << (8 * k))).to_bytes(k, "big")


# ---- independent encoder ---------------------------------------------------------------------------------
INT_FORMATS = ["posfix", "negfix", "uint8", "uint16", "uint32", "uint64", "int8", "int16", "int32", "int64"]
_UCODE = {"uint8": (0xCC, 1), "uint16": (0xCD, 2), "uint32": (0xCE, 4), "uint64": (0xCF, 8)}
_SCODE = {"int8": (0xD0, 1), "int16": (0xD1, 2), "int32": (0xD2, 4), "int64": (0xD3, 8)}


def int_formats(v):
    """all formats of the specification that are able to hold integer v"""
    out = []
    if 0 <= v <= 127:
        out.append("posfix")
    if -32 <= v < 0:
        out.append("negfix")
    for f, (_, k) in _UCODE.items():
        if 0 <= v < (1 << (8 * k)):
            out.append(f)
    for f, (_, k) in _SCODE.items():
        if -(1 << (8 * k - 1)) <= v < (1 << (8 * k - 1)):
            out.append(f)
    return out


def enc_int(v, f):
    if f == "posfix":
        return bytes([v])
    if f == "negfix":
        return bytes([v + 256])
    if f in _UCODE:
        c, k = _UCODE[f]
        return bytes([c]) + be(v, k)
    c, k = _SCODE[f]
    return bytes([c]) + be(v, k)


def _len_formats(n, fixmax, widths):
    out = []
    if fixmax is not None and n <= fixmax:
        out.append(0)
    for k in widths:
        if n < (1 << (8 * k)):
            out.append(k)
    return out


def str_formats(n):
    return _len_formats(n, 31, (1, 2, 4))


def enc_str(d, k):
    n = len(d)
    if k == 0:
        return bytes([0xA0 + n]) + d
    return bytes([{1: 0xD9, 2: 0xDA, 4: 0xDB}[k]]) + be(n, k) + d


def bin_formats(n):
    return _len_formats(n, None, (1, 2, 4))


def enc_bin(d, k):
    return bytes([{1: 0xC4, 2: 0xC5, 4: 0xC6}[k]]) + be(len(d), k) + d


def cnt_formats(n):
    return _len_formats(n, 15, (2, 4))


def enc_arr(n, k):
    return bytes([0x90 + n]) if k == 0 else bytes([{2: 0xDC, 4: 0xDD}[k]]) + be(n, k)


def enc_map(n, k):
    return bytes([0x80 + n]) if k == 0 else bytes([{2: 0xDE, 4: 0xDF}[k]]) + be(n, k)


def ext_formats(n):
    out = []
    if n in (1, 2, 4, 8, 16):
        out.append(0)
    return out + _len_formats(n, None, (1, 2, 4))


def enc_ext(ty, d, k):
    n = len(d)
    t = bytes([ty % 256])
    if k == 0:
        return bytes([{1: 0xD4, 2: 0xD5, 4: 0xD6, 8: 0xD7, 16: 0xD8}[n]]) + t + d
    return bytes([{1: 0xC7, 2: 0xC8, 4: 0xC9}[k]]) + be(n, k) + t + d


def enc_f32(bits):
    return b"\xCA" + be(bits, 4)


def enc_f64(bits):
    return b"\xCB" + be(bits, 8)


def ts_payloads(s, ns):
    """all spec layouts able to hold (s, ns)"""
    out = []
    if ns == 0 and 0 <= s < U(32):
        out.append(be(s, 4))
    if 0 <= s < U(34):
        out.append(be((ns << 34) | s, 8))
    out.append(be(ns, 4) + be(s, 8))
    return out


# ---- random documents --------------------------------------------------------------------------------------
def rand_int(rng):
    """an integer representable in MessagePack (-2^63 .. 2^64-1), boundary biased"""
    r = rng.random()
    if r < 0.5:
        return min(max(rng.choice(INT_THRESHOLDS), -U(63)), U(64) - 1)
    if r < 0.8:
        return rng.randrange(-40, 300)
    return rng.randrange(-U(63), U(64))


def rand_bytes(rng, n):
    return bytes(rng.getrandbits(8) for _ in range(n))


def rand_scalar(rng, small=False):
    """(kind, encoding) of one random non-container token; format chosen at random among the legal ones"""
    k = rng.choice(["int", "int", "nil", "bool", "f32", "f64", "str", "bin", "ext", "ts"])
    if k == "int":
        v = rand_int(rng)
        if v >= U(64):
            v = U(64) - 1
        return k, enc_int(v, rng.choice(int_formats(v)))
    if k == "nil":
        return k, b"\xC0"
    if k == "bool":
        return k, bytes([rng.choice([0xC2, 0xC3])])
    if k == "f32":
        return k, enc_f32(rng.choice(F32_SPECIAL) if rng.random() < 0.5 else rng.getrandbits(32))
    if k == "f64":
        return k, enc_f64(rng.choice(F64_SPECIAL) if rng.random() < 0.5 else rng.getrandbits(64))
    n = rng.choice([0, 1, 2, 5, 15, 16, 31, 32, 33] + ([] if small else [255, 256, 300]))
    if k == "str":
        return k, enc_str(rand_bytes(rng, n), rng.choice(str_formats(n)))
    if k == "bin":
        return k, enc_bin(rand_bytes(rng, n), rng.choice(bin_formats(n)))
    if k == "ext":
        n = rng.choice([0, 1, 2, 3, 4, 8, 12, 16, 17])
        return k, enc_ext(rng.choice([0, 1, 5, 127, -128, -2]), rand_bytes(rng, n), rng.choice(ext_formats(n)))
    s = rng.choice([0, 1, U(32) - 1, U(32), U(34) - 1, U(34), -1, -U(63), U(63) - 1, rng.randrange(0, U(33))])
    ns = rng.choice([0, 0, 1, 999999999, rng.randrange(0, 1000000000)])
    p = rng.choice(ts_payloads(s, ns))
    return k, enc_ext(-1, p, rng.choice(ext_formats(len(p))))


def rand_doc(rng, depth=3, small=False):
    """(kind, bytes) of one random well-formed object"""
    if depth == 0 or rng.random() < 0.45:
        return rand_scalar(rng, small)
    n = rng.choice([0, 1, 2, 3, 5] + ([] if small else [15, 16, 17]))
    if rng.random() < 0.5:
        body = b"".join(rand_doc(rng, depth - 1, True)[1] for _ in range(n))
        return "arr", enc_arr(n, rng.choice(cnt_formats(n))) + body
    body = b"".join(rand_doc(rng, depth - 1, True)[1] for _ in range(2 * n))
    return "map", enc_map(n, rng.choice(cnt_formats(n))) + body


def pol(rng):
    return rng.choice(["throw", "skip"]), rng.choice(["throw", "skip"])


def read_op(src, ovf, mis, T, pre, data):
    return f"mp.read {src} {ovf} {mis} {T} {pre} {hx(data)}"


def both(fn):
    """the same op for the string reader and for the stream reader"""
    return [fn("mem"), fn("stream")]
