"""Shared generator helpers for the chrono properties C14/C15 (an independent Python calendar on top of datetime.date)."""
import datetime

PRECS = {"ns": (1, 10 ** 9), "us": (1, 10 ** 6), "ms": (1, 1000), "s": (1, 1), "min": (60, 1), "h": (3600, 1), "d": (86400, 1)}
REPS = {"i64": (-2 ** 63, 2 ** 63 - 1), "i32": (-2 ** 31, 2 ** 31 - 1), "u64": (0, 2 ** 64 - 1), "i8": (-128, 127)}
ALL_TYPES = [(p, r) for p in PRECS for r in REPS]
# C14 quantifier: 64-bit for every precision, 32-bit for the coarse units; int8 hours/days are pinned by the unit tests
PRINT_TP_TYPES = [(p, "i64") for p in PRECS] + [(p, "i32") for p in ("s", "min", "h", "d")] + [("h", "i8"), ("d", "i8")]
PRINT_DUR_TYPES = [(p, r) for (p, r) in ALL_TYPES if not (r == "u64" and PRECS[p][1] > 1)]
FRAC_DIGITS = {"ns": 9, "us": 6, "ms": 3}


def per_day(prec):
    num, den = PRECS[prec]
    return 86400 * den // num


def rng_of(rep):
    return REPS[rep]


def fits(rep, v):
    lo, hi = REPS[rep]
    return lo <= v <= hi


def is_leap(y):
    return (y % 4 == 0 and y % 100 != 0) or y % 400 == 0


def month_len(y, m):
    return [31, 29 if is_leap(y) else 28, 31, 30, 31, 30, 31, 31, 30, 31, 30, 31][m - 1]


_EPOCH = datetime.date(1970, 1, 1).toordinal()


def days_from_civil(y, m, d):
    """days from 1970-01-01 (proleptic Gregorian, astronomical year numbering); 400-year shift onto datetime.date"""
    n400 = y // 400
    yy = y - 400 * n400 + 2000          # 2000..2399
    return datetime.date(yy, m, d).toordinal() - _EPOCH + (n400 - 5) * 146097


def civil_from_days(z):
    n400 = (z - (datetime.date(2000, 1, 1).toordinal() - _EPOCH)) // 146097
    dd = datetime.date.fromordinal(z - n400 * 146097 + _EPOCH)
    return dd.year + 400 * n400, dd.month, dd.day


def fmt_year(y):
    if y < 0:
        return "-%04d" % (-y)
    if y > 9999:
        return "+%d" % y
    return "%04d" % y


def fmt_tp(prec, count):
    """documented text of the time point `count` at precision prec"""
    num, den = PRECS[prec]
    total = count * num            # in 1/den seconds
    sec, frac = divmod(total, den)
    day, tod = divmod(sec, 86400)
    y, m, d = civil_from_days(day)
    s = "%s-%02d-%02dT%02d:%02d:%02d" % (fmt_year(y), m, d, tod // 3600, tod % 3600 // 60, tod % 60)
    if prec in FRAC_DIGITS:
        s += ".%0*d" % (FRAC_DIGITS[prec], frac)
    return s + "Z"


def hx(s, w=8):
    """text -> dot-separated hex units of width w (code points; non-BMP as surrogate pairs for w=16)"""
    if not s:
        return "-"
    out = []
    for ch in s:
        c = ch if isinstance(ch, int) else ord(ch)
        if w == 16 and c > 0xFFFF:
            c -= 0x10000
            out += ["%04x" % (0xD800 + (c >> 10)), "%04x" % (0xDC00 + (c & 0x3FF))]
        elif w == 8:
            out.append("%02x" % (c & 0xFF))
        else:
            out.append("%0*x" % (w // 4, c))
    return ".".join(out)


def hx_units(units, w):
    return ".".join("%0*x" % (w // 4, u) for u in units) if units else "-"


BOUNDARY_YEARS = [-10001, -10000, -9999, -1001, -1000, -999, -401, -400, -399, -101, -100, -99, -5, -4, -3, -1, 0, 1, 3, 4, 5,
                  99, 100, 101, 399, 400, 401, 999, 1000, 1582, 1583, 1599, 1600, 1601, 1677, 1678, 1899, 1900, 1901, 1969, 1970,
                  1971, 1999, 2000, 2001, 2023, 2024, 2038, 2099, 2100, 2101, 2261, 2262, 2263, 2399, 2400, 2401, 9999, 10000,
                  10001, 99999, 100000, 5881580, -5877641, 292277026596, -292277022657, 10 ** 15, -10 ** 15]
# years beyond the 32-bit range whose century / 400-year class differs from that of the year truncated to 32 bits
# (2^32 mod 400 = 96): leap-year logic done on a narrowed year goes wrong exactly here
BOUNDARY_YEARS += [b + r for b in (2 ** 31, -2 ** 31, 2 ** 32, -2 ** 32, 2 ** 33, 3 * 2 ** 32, -3 * 2 ** 32, 10 * 2 ** 32)
                   for r in (-4, 0, 4, 96, 100, 104, 196, 200, 204, 296, 300, 304, 396, 400, 404)]


def boundary_dates():
    out = []
    for y in BOUNDARY_YEARS:
        for (m, d) in ((1, 1), (1, 31), (2, 28), (3, 1), (6, 30), (12, 31)):
            out.append((y, m, d))
        if is_leap(y):
            out.append((y, 2, 29))
    out += [(1677, 9, 21), (1677, 9, 22), (2262, 4, 11), (2262, 4, 12), (1901, 12, 13), (1901, 12, 14), (2038, 1, 19),
            (1582, 10, 15), (1582, 10, 4), (5881580, 7, 11), (-5877641, 6, 23), (1969, 12, 26), (1970, 1, 6)]
    return out


def rand_count(rng, rep):
    lo, hi = REPS[rep]
    k = rng.random()
    if k < 0.4:
        return rng.randint(lo, hi)
    bits = rng.randint(0, 64)
    v = rng.getrandbits(bits) if bits else 0
    if lo < 0 and rng.random() < 0.5:
        v = -v
    return max(lo, min(hi, v))


def neighbourhood(rep, prec):
    """counts around every threshold of (rep, prec)"""
    lo, hi = REPS[rep]
    K = per_day(prec)
    num, den = PRECS[prec]
    pts = [lo, hi, 0, -(-lo // K) * K, hi // K * K]             # first/last midnight inside the range
    for unit_s in (1, 60, 3600, 86400, 604800):                  # one second/minute/hour/day/week in units
        if unit_s * den % num == 0:
            u = unit_s * den // num
            pts += [u, -u, 2 * u, -2 * u]
    if rep == "i64" and prec == "d":
        pts += [hi - 719468, lo + 146096 - 719468, lo + 719468]
    if den > 1:
        pts += [hi // den * den, -(-lo // den) * den]            # first/last whole second inside the range
    out = set()
    for c in pts:
        for dlt in (-2, -1, 0, 1, 2):
            if lo <= c + dlt <= hi:
                out.add(c + dlt)
    return sorted(out)
