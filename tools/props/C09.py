"""C09 — CSV written and read per RFC 4180 for any field content and separator."""
from .csvgen import *

THEOREMS = [
    "BSVerif.Props.C09.allowed_sepOk",
    "BSVerif.Props.C09.allowed_is_documented",
    "BSVerif.Props.C09.write_parse",
    "BSVerif.Props.C09.modelSave_renders",
    "BSVerif.Props.C09.writer_rejects_ragged",
    "BSVerif.Props.C09.reader_conforms",
    "BSVerif.Props.C09.reader_satisfies_oracle",
    "BSVerif.Props.C09.renders_iff_parse",
    "BSVerif.Props.C09.any_rendering",
    "BSVerif.Props.C09.width_mismatch_rejected",
    "BSVerif.Props.C09.reader_reads_writer",
    "BSVerif.Props.C09.archive_roundtrip",
    "BSVerif.Props.C09.bad_separator_refused",
    "BSVerif.Props.C09.save_empty",
    "BSVerif.Props.C09.load_empty_refused",
    "BSVerif.Props.C09.archiveRoundTripAll_refuted",
    "BSVerif.Props.C09.archiveRoundTrip_partial",
    "BSVerif.Csv.Spec.parse_of_renders",
    "BSVerif.Csv.Spec.renders_of_parse",
    "BSVerif.Csv.Reader.memSession_eq_abs",
    "BSVerif.Csv.Abs.absSession_expect",
]
RULE = ("random tables 1..8 columns x 0..20 rows of cells with separators, quotes, CR, LF, CRLF, Unicode, empties, numbers x 5 separators "
        "x {string reader, stream reader} x scripts (all keys in order / shuffled / repeated / absent key / by index / one too many / mixed); "
        "re-renderings by an independent RFC 4180 writer (random quoting, CRLF or LF per line, optional final break, column order); "
        "documents with a quoted field / escaped quote / CRLF / multi-byte character / end of text at every offset -6..+6 around the 256- and "
        "512-byte chunk boundaries; every string over {a,\",sep,CR,LF} up to length 5 (quick) / 8 (thorough); malformed documents; wrong widths; "
        "writer ops through CCsvStringWriter and CCsvStreamWriter, SaveObject/LoadObject<CsvArchive> with a 3-field class; "
        "non-trivial = text/output contains a quote, is longer than one chunk, or the outcome is an error; distinct = distinct op lines")
EXHAUSTIVE = {"quick": False, "thorough": False}
ASSUMPTIONS = ["code units are bytes (< 256); stream input is UTF-8 without BOM and without NUL in the first chunk (encoding detection is C13)",
               "std::istream::read delivers min(n, remaining) bytes and sets eofbit iff fewer than n arrived (std::istringstream)",
               "returned string_views are copied before the next reader call",
               "tables have at least one column; the writer theorems need at least one row (an empty array has no header line: recorded finding)"]
TRUSTED = ["harness/ops_csv.cpp (drives the real reader/writer classes and LoadObject/SaveObject)"]
OP_TIMEOUT = 10.0


def nontrivial(op, impl):
    t = op.split(" ")
    if impl.startswith("err") or " E" in impl or impl.startswith("E"):
        return True
    if t[0] in ("csv.read", "csv.load"):
        return "22" in t[-1] or len(t[-1]) > 2 * CHUNK
    return "22" in impl


def gen(tier, rng, boost=1):
    q = tier == "quick"
    ops = []
    ops += gen_malformed(rng)
    ops += gen_small_alphabet(rng, 5 if q else 8)
    ops += gen_tables_read(rng, (260 if q else 8000) * boost)
    ops += gen_wrong_width(rng, (60 if q else 800) * boost)
    ops += gen_boundary(rng, range(-6, 7) if q else range(-12, 13), tier=tier)
    ops += gen_long_values(rng, (40 if q else 400) * boost)
    ops += gen_write(rng, (300 if q else 5000) * boost)
    ops += gen_archive(rng, (150 if q else 2000) * boost)
    return ops


def extra_checks(ops, impl, res, known_classes, known_hits):
    return list(pair_checks(ops, impl))
