"""C01 — save then load reproduces the value, in every archive and output configuration."""
from .docgen import TARGETS
from .C08 import gen_c01_jsonxml, extra_checks_jsonxml

OP_TIMEOUT = 20.0

THEOREMS = [
    "BSVerif.Props.C01.saved_tree_is_one_value",
    "BSVerif.Props.C01.skip_tree",
    "BSVerif.Props.C01.layoutOf_doc",
    "BSVerif.Props.C01.saved_object_loads_back",
    "BSVerif.Props.C01.saved_object_loads_back_with_arrays",
    "BSVerif.Props.C01.layoutOf_arrwf",
    "BSVerif.Props.C03.history_correct",
    "BSVerif.Props.C03.close_after_any_history",
    "BSVerif.Props.C09.archive_roundtrip",
    "BSVerif.Props.C09.reader_reads_writer",
    "BSVerif.Props.C11.transcode_roundtrip",
    "BSVerif.Props.C16.int_roundtrip",
    "BSVerif.Props.C16.bool_roundtrip",
    "BSVerif.Props.C10.history_refines",
    "BSVerif.Props.C08.load_build_roundtrip",
    "BSVerif.Props.C08.save_then_load",
    "BSVerif.Props.C08.dom_of_save",
]
RULE = ("save -> load round trips through the real archives: 9 target shapes (root scalar, string, vector, vector of strings, nested vector, "
        "map, nested class with optional/map/vector/double/bool, vector of classes, CSV rows) x MsgPack/JSON/XML/CSV x {memory, stream}, values "
        "seeded (numeric extremes, strings with separators/quotes/line breaks/markup/multi-byte characters, empty containers); outcome must "
        "be 'same' or a failing save; non-trivial = every op (each is a full save+load of a structured value); distinct = distinct op lines")
EXHAUSTIVE = {"quick": False, "thorough": False}
ASSUMPTIONS = ["RapidJSON / pugixml print-parse pairs are third-party (assumed inverse on their domain, exercised here)",
               "XML values restricted to XML-1.0 characters and element names; JSON doubles finite",
               "encodings other than UTF-8 and pretty-printing are covered by C13 / C08 ops, not by rt.any"]
TRUSTED = ["harness/ops_load.cpp (value generator and equality)"]


def nontrivial(op, impl):
    return True


def gen(tier, rng, boost=1):
    ops = []
    n = (25 if tier == "quick" else 600) * boost
    for archive, targets in TARGETS.items():
        for target in targets:
            for _ in range(n):
                for src in ("mem", "stream"):
                    ops.append(f"rt.any {archive} {src} {target} {rng.randrange(1, 2 ** 31)}")
    # chrono fields at every layout threshold of the MsgPack Timestamp extension / as ISO-8601 text; CSV tables whose saved
    # document is an exact multiple (+-1) of the stream readers' 256-byte chunk
    for archive in ("mp", "json", "xml", "csv"):
        for target in (("vchrono", "vshape") if archive == "csv" else ("chrono", "vchrono", "shape", "vshape")):
            for _ in range(2 * n):
                for src in ("mem", "stream"):
                    ops.append(f"rt.any {archive} {src} {target} {rng.randrange(1, 2 ** 31)}")
    for _ in range(4 * n):
        for src in ("mem", "stream"):
            ops.append(f"rt.any csv {src} rows256 {rng.randrange(1, 2 ** 31)}")
    # multimaps with equal keys (their relative order is part of the value); long vectors of time points (MsgPack ext headers at every
    # offset relative to the stream cache)
    for archive in ("mp", "json", "xml"):
        for _ in range(2 * n):
            for src in ("mem", "stream"):
                ops.append(f"rt.any {archive} {src} mmsi {rng.randrange(1, 2 ** 31)}")
    for _ in range(6 * n):
        for src in ("mem", "stream"):
            ops.append(f"rt.any mp {src} vtp {rng.randrange(1, 2 ** 31)}")
    ops += gen_c01_jsonxml(tier, rng, boost)
    return ops


def extra_checks(ops, impl, res, known_classes, known_hits):
    return list(extra_checks_jsonxml(ops, impl, res, known_classes, known_hits) or [])
