"""Shared generators for the CSV ops (C09, CSV half of C10).

Everything is seeded from the `rng` passed in. Contains an independent RFC 4180 writer (free choice of
quoting per field, CRLF/LF per line, optional final line break, column order) used to produce
conformant renderings of random tables, boundary-directed documents around the 256-byte chunk of
CEncodedStreamReader, an exhaustive small-alphabet stream and malformed documents.
"""
import itertools

SEPS = [0x2C, 0x3B, 0x09, 0x20, 0x7C]
CHUNK = 256
KEY_X = b"x"
KEY_Y = b"y,;\t |z"
KEY_Q = b"q\"\r\nw"
ROW3 = [KEY_X, KEY_Y, KEY_Q]

UNI = ["é", "ß", "Ж", "€", "☐", "日本", "𝄞", "😀", " ", "﻿", " "]
WORDS = ["a", "b", "abc", "Value1", "hello world", "x y", "id", "name", "0", "-1", "42", "3.14", "1e10", "true", "false",
         "2023-02-28T12:00:00Z", "null", " ", "  lead", "trail  "]


def hx(b):
    return b.hex() if b else "-"


def rand_cell(rng, sep, heavy=False):
    """a cell value (bytes): mostly short, with separators, quotes, CR, LF, CRLF, Unicode, empties, numbers"""
    k = rng.random()
    if k < 0.12:
        return b""
    if k < 0.35 and not heavy:
        return rng.choice(WORDS).encode()
    if k < 0.45 and not heavy:
        return str(rng.choice([0, 1, -1, 7, 255, 256, 65535, 2 ** 31 - 1, -2 ** 63, rng.randrange(-10 ** 9, 10 ** 9)])).encode()
    parts = []
    for _ in range(rng.choice([1, 1, 2, 3, 5, 8])):
        j = rng.random()
        if j < 0.16:
            parts.append(bytes([sep]))
        elif j < 0.32:
            parts.append(b'"')
        elif j < 0.40:
            parts.append(b"\r")
        elif j < 0.48:
            parts.append(b"\n")
        elif j < 0.56:
            parts.append(b"\r\n")
        elif j < 0.62:
            parts.append(b'""')
        elif j < 0.70:
            parts.append(bytes([rng.choice(SEPS)]))
        elif j < 0.82:
            parts.append(rng.choice(UNI).encode())
        else:
            parts.append(rng.choice(WORDS).encode())
    return b"".join(parts)


PREFIX_FAMILY = [b"id", b"id2", b"id22", b"i", b"name", b"name_full", b"na", b"n", b"x", b"xy"]


def rand_header(rng, sep, ncols, plain=False):
    if not plain and ncols >= 2 and rng.random() < 0.25:
        # column names that are proper prefixes of one another, in any order: a lookup by name must compare whole names
        fam = PREFIX_FAMILY[:]
        rng.shuffle(fam)
        return fam[:ncols]
    names = []
    while len(names) < ncols:
        if plain or rng.random() < 0.6:
            n = ("c%d" % len(names)).encode() if rng.random() < 0.5 else (rng.choice(WORDS) + str(len(names))).encode()
        else:
            n = rand_cell(rng, sep, heavy=True) + str(len(names)).encode()
        if n not in names and n != b"\x01":
            names.append(n)
    return names


def rand_table(rng, sep, maxcols=8, maxrows=20):
    ncols = rng.choice([1, 1, 2, 3, 3, 4, 5, 8][:max(1, min(8, maxcols))])
    nrows = rng.choice([0, 1, 1, 2, 3, 5, 8, 20])
    nrows = min(nrows, maxrows)
    hdr = rand_header(rng, sep, ncols)
    rows = [[rand_cell(rng, sep) for _ in range(ncols)] for _ in range(nrows)]
    return hdr, rows


# ---- independent RFC 4180 writer ------------------------------------------------------------------
def must_quote(f, sep):
    return any(c in f for c in (b'"', bytes([sep]), b"\r", b"\n"))


def field(f, sep, quote):
    if quote or must_quote(f, sep):
        return b'"' + f.replace(b'"', b'""') + b'"'
    return f


def render(rng, records, sep, quote_p=0.3, eol=None, final=None):
    """records: list of lists of bytes (first = header if any). Random quoting / line endings / final break."""
    out = b""
    n = len(records)
    for i, rec in enumerate(records):
        line = bytes([sep]).join(field(f, sep, rng.random() < quote_p) for f in rec)
        last = i == n - 1
        e = eol if eol is not None else rng.choice([b"\r\n", b"\r\n", b"\n"])
        if last:
            fin = final if final is not None else rng.random() < 0.6
            if line == b"":
                # a last record that renders as the empty string needs its line break (or quotes)
                if rng.random() < 0.5:
                    line = b'""'
                else:
                    fin = True
            out += line + (e if fin else b"")
        else:
            out += line + e
    return out


def permute(rng, hdr, rows):
    idx = list(range(len(hdr)))
    rng.shuffle(idx)
    return [hdr[i] for i in idx], [[r[i] for i in idx] for r in rows], idx


# ---- scripts --------------------------------------------------------------------------------------
def scripts_for(rng, ncols, full=False):
    keys = ["k%d" % i for i in range(ncols)]
    out = [".".join(keys) if keys else "."]
    sh = keys[:]
    rng.shuffle(sh)
    out.append(".".join(sh) if sh else ".")
    out.append(".".join(["i"] * ncols) if ncols else ".")
    if full:
        out.append(".".join(sh + [rng.choice(keys)] + ["k99"]) if keys else "k99")     # re-read + absent key
        out.append(".".join(keys + keys))                                             # every cell twice
        out.append(".".join(["i"] * (ncols + 1)))                                      # one too many
        mixed = [rng.choice(keys + ["i"]) for _ in range(rng.randrange(1, 2 * ncols + 2))]
        out.append(".".join(mixed))
        out.append(".")
    return out


def read_ops(text, sep, script, wh=1, srcs=("mem", "stream")):
    if b"\x00" in text[:CHUNK] or text[:3] == b"\xef\xbb\xbf" or text[:2] in (b"\xff\xfe", b"\xfe\xff"):
        srcs = [s for s in srcs if s == "mem"]
    return ["csv.read %s %02x %d %s %s" % (s, sep, wh, script, hx(text)) for s in srcs]


def load_ops(text, sep, srcs=("mem", "stream")):
    if b"\x00" in text[:CHUNK] or text[:3] == b"\xef\xbb\xbf" or text[:2] in (b"\xff\xfe", b"\xfe\xff"):
        srcs = [s for s in srcs if s == "mem"]
    return ["csv.load %s %02x %s" % (s, sep, hx(text)) for s in srcs]


def write_op(sep, wh, kvrows):
    if not kvrows:
        rows = "."
    else:
        rows = ";".join(",".join(hx(k) + ":" + hx(v) for k, v in r) if r else "_" for r in kvrows)
    return "csv.write %02x %d %s" % (sep, wh, rows)


def save_op(sep, rows3):
    rows = ";".join(",".join(hx(c) for c in r) for r in rows3) if rows3 else "."
    return "csv.save %02x %s" % (sep, rows)


# ---- groups of ops --------------------------------------------------------------------------------
def gen_tables_read(rng, n, full_scripts_every=4):
    """conformant renderings of random tables, every separator, both readers"""
    ops = []
    for t in range(n):
        sep = SEPS[t % len(SEPS)]
        hdr, rows = rand_table(rng, sep)
        if rng.random() < 0.5:
            hdr, rows, _ = permute(rng, hdr, rows)
        for _ in range(2):
            text = render(rng, [hdr] + rows, sep, quote_p=rng.choice([0.0, 0.3, 1.0]))
            scs = scripts_for(rng, len(hdr), full=(t % full_scripts_every == 0))
            for sc in (scs if t % full_scripts_every == 0 else scs[:3]):
                ops += read_ops(text, sep, sc)
        if t % 7 == 0:
            # without header line handling: every record is data
            text = render(rng, [hdr] + rows, sep)
            ops += read_ops(text, sep, ".".join(["i"] * len(hdr)), wh=0)
            ops += read_ops(text, sep, "k0.i", wh=0)
    return ops


def gen_wrong_width(rng, n):
    ops = []
    for t in range(n):
        sep = SEPS[t % len(SEPS)]
        hdr, rows = rand_table(rng, sep)
        if not rows:
            rows = [[rand_cell(rng, sep) for _ in hdr]]
        i = rng.randrange(len(rows))
        r = list(rows[i])
        if len(r) > 1 and rng.random() < 0.5:
            del r[rng.randrange(len(r))]
        else:
            r.insert(rng.randrange(len(r) + 1), rand_cell(rng, sep))
        rows[i] = r
        text = render(rng, [hdr] + rows, sep)
        for sc in scripts_for(rng, len(hdr))[:2]:
            ops += read_ops(text, sep, sc)
        if t % 5 == 0:
            ops += read_ops(text, sep, "i", wh=0)
    return ops


MALFORMED = [b'"', b'a"', b'"a', b'"a"b', b'a,"b', b'a,b"c', b'"a""', b'"a"" ', b'a, "b"', b'"a",b\r\n"c,d\r\n', b'a\rb', b'a\r',
             b'\r', b'\n', b'\r\n', b'\n\n', b',', b',,', b',\n', b'a,b\n,', b'a,b\r\n1,2,', b'a,b\r\n1,', b'a,b\r\n,', b'a\n""',
             b'a\n"\n"', b'""', b'"",""', b'""""', b'"""', b'a,b\n1,2\n\n', b'a,b\n\n1,2', b'a\n\n\n', b'a,b,c', b'a,b,c\r\n',
             b'a,b\r\n1,2\r\n3', b'a,b\r\n1,2,3', b'a,a\r\n1,2\r\n', b'"a\r\nb",c\r\n1,2', b' a , b \r\n 1 , 2 ',
             b'a,b\r\n"1"x,2\r\n', b'a,b\r\n"1""",2\r\n', b'a,b\r\n1,"2', b'a,b\n1,2\r', b'a,b\n1,2\r\r\n', b'a\r\r\n1\r\n']


def gen_malformed(rng):
    ops = []
    for m in MALFORMED:
        for sep in (0x2C, 0x3B):
            t = m.replace(b",", bytes([sep]))
            ncols = t.split(b"\n")[0].count(bytes([sep])) + 1
            for sc in (".".join("k%d" % i for i in range(ncols)), ".".join(["i"] * ncols), "k1.k1.i"):
                ops += read_ops(t, sep, sc)
            ops += read_ops(t, sep, "i.i", wh=0)
    ops += read_ops(b"", 0x2C, ".")
    ops += read_ops(b"", 0x2C, "i", wh=0)
    return ops


def gen_small_alphabet(rng, maxlen):
    """every string over {a, quote, sep, CR, LF} up to maxlen, through both readers"""
    ops = []
    alpha = [b"a", b'"', b",", b"\r", b"\n"]
    for n in range(0, maxlen + 1):
        for c in itertools.product(alpha, repeat=n):
            t = b"".join(c)
            sc = rng.choice(["k0.k1", "k1.k0.k1", "i.i", "k0", "i", "k1.i"])
            ops += read_ops(t, 0x2C, sc)
            if n <= 3:
                ops += read_ops(t, 0x2C, "i", wh=0)
    return ops


FEATURES = [b'"q,""x"', b'"multi\r\nline"', "é€😀".encode(), b'""', b'"a""""b"', b"plain", b'"\r"', b'"\n"', b'"' + "ж".encode() * 3 + b'"']


def gen_boundary(rng, offsets, boundaries=(CHUNK, 2 * CHUNK), tier="quick"):
    """documents in which a quoted field / escaped quote / CRLF / multi-byte character / separator / end of
    text falls at every offset around the chunk boundary"""
    ops = []
    for B in boundaries:
        for d in offsets:
            target = B + d
            for fi, feat in enumerate(FEATURES):
                for col in (0, 1, 2):
                    # header a,b,c CRLF ; first data row: padding cell so that `feat` starts at byte `target`
                    hdr = b"a,b,c\r\n"
                    cells_before = col          # each earlier cell of the row is the pad or 'x'
                    # row = pad , ... ; we put the padding into the cell just before feat (or a whole padding row when col == 0)
                    if col == 0:
                        padrow_len = target - len(hdr)
                        if padrow_len < 7:
                            continue
                        # padding row "ppp,x,y\r\n" of exactly padrow_len bytes
                        p = b"p" * (padrow_len - 6)
                        pre = p + b",x,y\r\n"
                        row = feat + b",1,2"
                    else:
                        fixed = (b"x," * (col - 1))
                        padlen = target - len(hdr) - len(fixed) - 1
                        if padlen < 0:
                            continue
                        pre = b""
                        row = fixed + b"p" * padlen + b"," + feat + (b",z" * (2 - col))
                    for tail in (b"\r\n", b"", b"\n7,8,9\r\n"):
                        text = hdr + pre + row + tail
                        sc = rng.choice(["k0.k1.k2", "k2.k1.k0", "i.i.i", "k%d.k%d" % (col, col), "k1.i.k0"])
                        if tier == "quick" and (fi + col + d) % 3 and tail != b"":
                            continue
                        ops += read_ops(text, 0x2C, sc)
            # end of text / line break exactly around the boundary
            for body in (b"1,2,3", b'1,"2",3', b"1,2,"):
                hdr = b"a,b,c\n"
                pad = target - len(hdr) - len(body)
                if pad < 6:
                    continue
                prer = b"p" * (pad - 5) + b",x,y\n"
                for tail in (b"", b"\n", b"\r\n", b"\r"):
                    ops += read_ops(hdr + prer + body + tail, 0x2C, "k0.k1.k2")
    return ops


def gen_long_values(rng, n):
    """values longer than several chunks, quoted with escapes, Unicode"""
    ops = []
    for t in range(n):
        sep = SEPS[t % len(SEPS)]
        ncols = rng.choice([1, 2, 3])
        hdr = rand_header(rng, sep, ncols, plain=True)
        rows = []
        for _ in range(rng.choice([1, 2, 3])):
            row = []
            for _ in range(ncols):
                ln = rng.choice([10, 100, 255, 256, 257, 300, 511, 512, 513, 700, 1500])
                unit = rng.choice([b"a", b'"', "é".encode(), "😀".encode(), b"ab" + bytes([sep]), b"x\r\ny", b'""'])
                v = (unit * (ln // len(unit) + 1))[:ln]
                # do not cut a multi-byte character
                while v and (v[-1] & 0xC0) == 0x80 or (v and v[-1] >= 0xC0):
                    v = v[:-1]
                row.append(v)
            rows.append(row)
        text = render(rng, [hdr] + rows, sep)
        for sc in scripts_for(rng, ncols)[:2]:
            ops += read_ops(text, sep, sc)
    return ops


def gen_write(rng, n):
    ops = []
    for t in range(n):
        sep = SEPS[t % len(SEPS)]
        hdr, rows = rand_table(rng, sep)
        wh = 0 if t % 6 == 5 else 1
        kv = [[(hdr[i], c) for i, c in enumerate(r)] for r in rows]
        if t % 9 == 8 and len(kv) >= 2:
            # rows of different width -> refused by NextLine (called directly here, not from a destructor)
            i = rng.randrange(1, len(kv))
            if len(kv[i]) > 1 and rng.random() < 0.5:
                kv[i] = kv[i][:-1]
            else:
                kv[i] = kv[i] + [(b"extra", rand_cell(rng, sep))]
        if t % 11 == 10 and kv:
            # later rows use other keys: only the first row's keys form the header
            kv[-1] = [(k + b"'", v) for k, v in kv[-1]]
        ops.append(write_op(sep, wh, kv))
    # single special characters in every position of a one/two-column table, every separator
    for sep in SEPS:
        for ch in (b'"', bytes([sep]), b"\r", b"\n", b"\r\n", b"", b" ", "€".encode()):
            ops.append(write_op(sep, 1, [[(b"k", ch)]]))
            ops.append(write_op(sep, 1, [[(ch + b"k", b"v")]]))
            ops.append(write_op(sep, 1, [[(b"k", b"a" + ch + b"b"), (b"l", ch)], [(b"k", ch + ch), (b"l", b"")]]))
            ops.append(write_op(sep, 0, [[(b"k", ch), (b"l", ch)]]))
    ops.append(write_op(0x2C, 1, []))
    ops.append(write_op(0x2C, 1, [[]]))
    ops.append(write_op(0x2C, 1, [[(b"a", b"1")], []]))
    return ops


def gen_archive(rng, n, allow_empty=True):
    """SaveObject / LoadObject ops; `allow_empty=False` leaves out the empty array (finding recorded under C09)"""
    ops = []
    for t in range(n):
        sep = SEPS[t % len(SEPS)]
        nrows = rng.choice([0, 1, 1, 2, 3, 8]) if t % 10 else 0
        if not allow_empty:
            nrows = max(1, nrows)
        rows = [[rand_cell(rng, sep) for _ in range(3)] for _ in range(nrows)]
        ops.append(save_op(sep, rows))
        # load: the columns of Row3 in any order, possibly with a column missing or an extra one
        cols = list(ROW3)
        extra = rng.random() < 0.3
        if extra:
            cols.append(b"extra")
        missing = rng.random() < 0.25
        if missing:
            del cols[rng.randrange(3)]
        rng.shuffle(cols)
        trows = [[rand_cell(rng, sep) for _ in cols] for _ in range(rng.choice([0, 1, 2, 3, 8]))]
        text = render(rng, [cols] + trows, sep)
        ops += load_ops(text, sep)
    for sep in (0x3A, 0x22, 0x0A, 0x61):
        ops.append(save_op(sep, [[b"1", b"2", b"3"]]))
        ops += load_ops(b"x\r\n1\r\n", sep)
    ops += load_ops(b"", 0x2C)
    ops += load_ops(b"x,nokey\r\n", 0x2C)
    ops += load_ops(b"x\r\n1,2\r\n", 0x2C)
    return ops


def pair_checks(ops, impl):
    """C10: the same request through `mem` and `stream` must give the same answer. Yields (op, impl, '-', verdict)."""
    seen = {}
    for op, ia in zip(ops, impl):
        t = op.split(" ")
        if t[0] in ("csv.read", "csv.load") and t[1] in ("mem", "stream"):
            key = (t[0],) + tuple(t[2:])
            other = seen.get(key)
            if other is None:
                seen[key] = (t[1], ia, op)
            elif other[0] != t[1] and other[1] != ia:
                yield (op, ia, other[1], "bad:memory_and_stream_reader_disagree")
