"""C06 — MsgPack output is spec-conformant, compact, and readable by any decoder (token-level writers)."""
from .mpgen import *

THEOREMS = [
    "BSVerif.Props.C06.pushBE_is_big_endian",
    "BSVerif.Props.C06.spec_decode_encode",
    "BSVerif.Props.C06.conformant_one_object",
    "BSVerif.Props.C06.write_nil_conformant",
    "BSVerif.Props.C06.write_bool_conformant",
    "BSVerif.Props.C06.write_f32_conformant",
    "BSVerif.Props.C06.write_f64_conformant",
    "BSVerif.Props.C06.write_u64_conformant",
    "BSVerif.Props.C06.write_u32_conformant",
    "BSVerif.Props.C06.write_u16_conformant",
    "BSVerif.Props.C06.write_u8_conformant",
    "BSVerif.Props.C06.write_i64_conformant",
    "BSVerif.Props.C06.write_i32_conformant",
    "BSVerif.Props.C06.write_i16_conformant",
    "BSVerif.Props.C06.write_i8_conformant",
    "BSVerif.Props.C06.write_str_conformant",
    "BSVerif.Props.C06.write_str_too_large",
    "BSVerif.Props.C06.begin_array_conformant",
    "BSVerif.Props.C06.begin_map_conformant",
    "BSVerif.Props.C06.begin_binary_conformant",
    "BSVerif.Props.C06.begin_too_large",
    "BSVerif.Props.C06.timestamp_spec_roundtrip",
    "BSVerif.Props.C06.write_ts_refuted",
    "BSVerif.Props.C06.write_ts_conformant_partial",
    "BSVerif.Props.C06.write_ts96_shape",
]
RULE = ("every WriteValue overload / BeginArray / BeginMap / BeginBinary of CMsgPackStringWriter and CMsgPackStreamWriter: "
        "8-bit entry points exhaustively, 16-bit ones exhaustively in thorough (boundary + sample in quick), all format thresholds "
        "2^5,2^7,2^8,2^15,2^16,2^31,2^32,2^63,2^64 +-2 for every integer entry point; float/double special patterns + random bits; "
        "string/bin/array/map lengths 0..33,254..257,65534..65537 (+2^32-1, 2^32, 2^64-1 for counts); timestamps at the 32/34-bit "
        "seconds thresholds x ns {0,1,999999999,random}; non-trivial = op whose output has more than one byte; distinct = distinct op lines")
EXHAUSTIVE = {"quick": False, "thorough": False}
ASSUMPTIONS = ["little-endian host (NativeToBigEndian = Reverse)",
               "CBinTimestamp.Nanoseconds outside 0..999999999 is outside the writer's contract (bin_timestamp.h comment); such ops are "
               "only compared model-vs-code (verdict nospec); the pre-epoch negative-nanoseconds defect originates in bin_timestamp.h (C08/chrono)",
               "strings longer than 2^32-1 bytes (OutOfRange branch of WriteValue(string_view)) are not executed"]
TRUSTED = ["Spec.decodeToken/encodeAs written from the MessagePack specification (lean/BSVerif/MsgPack/Spec.lean)"]


def nontrivial(op, impl):
    return len(impl.split(" ")[0]) > 2


def gen(tier, rng, boost=1):
    ops = ["mp.write nil", "mp.write bool 0", "mp.write bool 1"]
    thorough = tier == "thorough"
    # integers
    for ty, (lo, hi) in INT_TYPES.items():
        vals = set(v for v in INT_THRESHOLDS if lo <= v <= hi) | {lo, hi, lo + 1, hi - 1}
        bits = 8 if ty.endswith("8") else 16 if ty.endswith("16") else 0
        if bits == 8 or (bits == 16 and thorough):
            vals |= set(range(lo, hi + 1))
        else:
            n = (2000 if bits == 16 else 600) * boost * (10 if thorough else 1)
            for _ in range(n):
                k = rng.randrange(1, 65)
                v = rng.getrandbits(k) * rng.choice([1, -1])
                if lo <= v <= hi:
                    vals.add(v)
            if not bits:
                # every 16-bit value also through the wide entry points (cascade into the narrow overloads)
                step = 1 if thorough else 37
                vals |= set(v for v in range(max(lo, -U(15) - 3), min(hi, U(16) + 3) + 1, step))
        ops += [f"mp.write {ty} {v}" for v in sorted(vals)]
    # floats
    for b in F32_SPECIAL + [rng.getrandbits(32) for _ in range(300 * boost)]:
        ops.append(f"mp.write f32 {b:08x}")
    for b in F64_SPECIAL + [rng.getrandbits(64) for _ in range(300 * boost)]:
        ops.append(f"mp.write f64 {b:016x}")
    # strings
    lens = list(range(0, 40)) + LEN_THRESHOLDS + BIG_LENS + ([rng.randrange(258, 65534) for _ in range(3)] if not thorough else
                                                             [rng.randrange(258, 70000) for _ in range(60)])
    for n in lens:
        ops.append(f"mp.write str {hx(rand_bytes(rng, n))}")
    ops.append(f"mp.write str {hx(bytes(range(256)))}")
    # counts
    cnts = sorted(set(list(range(0, 40)) + LEN_THRESHOLDS + BIG_LENS + [70000, 70001, U(31), U(32) - 2, U(32) - 1, U(32), U(32) + 1,
                                                                        U(63), U(64) - 1]
                      + [rng.getrandbits(rng.randrange(1, 65)) for _ in range(200 * boost)]))
    for n in cnts:
        for e in ("arr", "map", "bin"):
            ops.append(f"mp.write {e} {n}")
    # timestamps
    secs = sorted({0, 1, 2, U(31) - 1, U(31), U(32) - 2, U(32) - 1, U(32), U(32) + 1, U(34) - 2, U(34) - 1, U(34), U(34) + 1, U(35),
                   -1, -2, -U(31), -U(34), -U(63), -U(63) + 1, U(63) - 1, U(63) - 2, 1700000000, 253402300799}
                  | {rng.randrange(0, U(34)) for _ in range(40)} | {rng.randrange(-U(63), U(63)) for _ in range(40)})
    nss = [0, 1, 2, 999999998, 999999999, 500000000] + [rng.randrange(0, 1000000000) for _ in range(4)]
    for s in secs:
        for ns in nss:
            ops.append(f"mp.write ts {s} {ns}")
    # outside the writer's contract: model-vs-code only
    for s in (0, 1, -1, U(34)):
        for ns in (-1, -5, -999999999, 1000000000, U(30), U(31) - 1, -U(31)):
            ops.append(f"mp.write ts {s} {ns}")
    # classes with conditional fields (one in a base class): map header = number of entries written, object after object
    for _ in range((150 if tier == "quick" else 3000) * boost):
        masks = [rng.randrange(64) for _ in range(rng.choice([1, 2, 3, 6]))]
        ops.append(f"mp.obj {rng.choice(['mem', 'stream'])} {';'.join(map(str, masks))}")
    ops.append("mp.obj2 mem " + ";".join(str(m) for m in range(32)))
    ops.append("mp.obj2 stream " + ";".join(str(m) for m in reversed(range(32))))
    for _ in range((40 if tier == "quick" else 1000) * boost):
        ops.append(f"mp.obj2 {rng.choice(['mem', 'stream'])} {';'.join(str(rng.randrange(32)) for _ in range(rng.choice([1, 2, 4])))}")
    ops.append("mp.obj mem " + ";".join(str(m) for m in range(64)))
    ops.append("mp.obj stream " + ";".join(str(m) for m in reversed(range(64))))
    # what the writer is handed for chrono values: time_point / duration -> CBinTimestamp (seconds floor, nanoseconds 0..999999999),
    # incl. negative and sub-second values (C14's generator, ops bin.*)
    from .C14 import gen as gen_c14
    ops += [o for o in gen_c14(tier, rng, boost) if o.startswith("bin.")][: (6000 if tier == "quick" else 400000)]
    return ops


def adjust_verdict(op, impl, verdict):
    """bin.* ops are borrowed from C14; its recorded chrono classes are C14's business"""
    if op.startswith("bin.") and verdict.startswith("known:"):
        return "ok"
    return verdict
