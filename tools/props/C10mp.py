"""MsgPack reader half of C10 — CMsgPackStringReader vs CMsgPackStreamReader, wherever values fall relative to the
256-byte cache of CBinaryStreamReader.

`gen_c10mp(tier, rng, boost)`, `THEOREMS_C10MP`, `extra_checks_c10mp`, `nontrivial_c10mp` are meant to be called from
C10.py; the module is also a complete property module of its own (`check.py C10mp`).

Every op is issued twice, for `mem` and for `stream`:
  * correspondence: the `mem` answer is compared with the string-reader model, the `stream` answer with the
    STREAM-reader model (MsgPack/StreamReader.lean over the CBinaryStreamReader model, chunk size of the code);
  * oracle: single calls are judged by the MessagePack Spec (as in C07), histories of the stream reader against the
    string-reader model;
  * extra check (the property itself, model-free): the two implementation answers of a pair must be identical.
"""
from .mpgen import *

CHUNK = 256

THEOREMS_C10MP = [
    "BSVerif.Props.C10mp.readValueType_stream_eq_string",
    "BSVerif.Props.C10mp.skipValue_stream_eq_string",
    "BSVerif.Props.C10mp.skipImpl_stream_eq_string",
    "BSVerif.Props.C10mp.readNil_stream_eq_string",
    "BSVerif.Props.C10mp.readInteger_stream_eq_string",
    "BSVerif.Props.C10mp.readFloat_stream_eq_string",
    "BSVerif.Props.C10mp.readDouble_stream_eq_string",
    "BSVerif.Props.C10mp.readString_stream_eq_string",
    "BSVerif.Props.C10mp.readTimestamp_stream_eq_string",
    "BSVerif.Props.C10mp.readArraySize_stream_eq_string",
    "BSVerif.Props.C10mp.readMapSize_stream_eq_string",
    "BSVerif.Props.C10mp.readBinarySize_stream_eq_string",
    "BSVerif.Props.C10mp.readBinary_stream_eq_string",
    "BSVerif.Props.C10mp.setPosition_stream_eq_string",
    "BSVerif.Props.C10mp.stream_reader_equals_string_reader",
    "BSVerif.Props.C10mp.string_reader_stays_inside",
    "BSVerif.Props.C10mp.stream_program_refines_cursor",
    "BSVerif.Props.C10mp.stream_call_equals_string_call",
    "BSVerif.Props.C10mp.stream_history_equals_string_history_from",
    "BSVerif.Props.C10mp.stream_history_equals_string_history",
    "BSVerif.Props.C10mp.old_nil_refuted",
    "BSVerif.Props.C10mp.old_nil_partial",
    "BSVerif.Props.C10mp.old_setPosition_refuted",
    "BSVerif.Props.C10mp.small_chunk_refuted",
    "BSVerif.Props.C10mp.writeNil_stream_eq_string",
    "BSVerif.Props.C10mp.writeBool_stream_eq_string",
    "BSVerif.Props.C10mp.writeU8_stream_eq_string",
    "BSVerif.Props.C10mp.writeU16_stream_eq_string",
    "BSVerif.Props.C10mp.writeU32_stream_eq_string",
    "BSVerif.Props.C10mp.writeU64_stream_eq_string",
    "BSVerif.Props.C10mp.writeI8_stream_eq_string",
    "BSVerif.Props.C10mp.writeI16_stream_eq_string",
    "BSVerif.Props.C10mp.writeI32_stream_eq_string",
    "BSVerif.Props.C10mp.writeI64_stream_eq_string",
    "BSVerif.Props.C10mp.writeFloat_stream_eq_string",
    "BSVerif.Props.C10mp.writeDouble_stream_eq_string",
    "BSVerif.Props.C10mp.writeString_stream_eq_string",
    "BSVerif.Props.C10mp.writeTimestamp_stream_eq_string",
    "BSVerif.Props.C10mp.beginArray_stream_eq_string",
    "BSVerif.Props.C10mp.beginMap_stream_eq_string",
    "BSVerif.Props.C10mp.beginBinary_stream_eq_string",
    "BSVerif.Props.C10mp.writeBinary_stream_eq_string",
    "BSVerif.Props.C10mp.stream_writer_equals_string_writer",
    "BSVerif.Props.C10mp.stream_session_equals_string_session",
    "BSVerif.MsgPack.StreamModel.run_refines",
    "BSVerif.MsgPack.StreamModel.chunkLoop_refines",
    "BSVerif.MsgPack.StreamModel.ext_dataSize",
]
THEOREMS = THEOREMS_C10MP
RULE = ("every op for the string reader AND the stream reader (answers compared pairwise and with the two models): single calls "
        "(every ReadValue overload / Read*Size / ReadValueType / SkipValue) on every token format placed at every offset -9..+2 around "
        "the 256- and 512-byte cache boundaries, with matching and foreign targets, all strict prefixes of short tokens at the boundary; "
        "HISTORIES on one reader object: 1..60 values read in order by matching / mismatching / skipping calls, containers entered or "
        "skipped, binary read byte by byte, GetPosition/IsEnd interleaved, SetPosition back to earlier value starts (inside and outside "
        "the cached chunk, after the end of the stream was reached) and beyond the end, strings and binaries of 200..900 bytes, truncated "
        "and corrupted documents; writer SESSIONS (mp.wseq): 1..40 calls of every WriteValue overload / BeginArray / BeginMap / "
        "BeginBinary / WriteBinary at the format thresholds on one string writer and one stream writer, bytes compared with both "
        "writer models and with each other; non-trivial = input longer than one chunk or a SetPosition in the history")
EXHAUSTIVE = {"quick": False, "thorough": False}
ASSUMPTIONS = ["seekable std::istringstream delivering min(n, remaining) bytes per read (short-read / non-seekable streambufs are not modelled)",
               "chunk size fixed at 256 in the executed code (generated constant); the theorems hold for every chunk size >= 8",
               "an exception ends the history (positions after a throw are not compared)"]
TRUSTED = ["harness/ops_msgpack.cpp, harness/ops_mpstream.cpp"]

KIND_T = {"int": ["i64", "u64", "u8", "i16"], "nil": ["nil"], "bool": ["bool", "u8"], "f32": ["f32", "f64"], "f64": ["f64", "f32"],
          "str": ["str"], "bin": ["bin"], "arr": ["arr"], "map": ["map"], "ext": ["ts"], "ts": ["ts"], "never": ["i32"]}


def nontrivial_c10mp(op, impl):
    t = op.split(" ")
    if t[0] == "mp.wseq":
        return t[1].count(",") >= 2
    if t[0] == "mp.seq":
        return "set:" in t[5] or len(t[4]) > 2 * CHUNK
    if t[0] == "mp.read":
        return int(t[5]) + len(t[6]) // 2 > CHUNK
    return int(t[2]) + len(t[3]) // 2 > CHUNK


nontrivial = nontrivial_c10mp


def zoo(rng):
    """(kind, bytes): every format of the specification, incl. non-minimal widths"""
    z = []
    for v in (0, 127, -1, -32, 128, 255, 256, 65535, 65536, U(32) - 1, U(32), U(64) - 1, -33, -129, -U(15) - 1, -U(31) - 1, -U(63)):
        for f in int_formats(v):
            z.append(("int", enc_int(v, f)))
    z += [("nil", b"\xC0"), ("bool", b"\xC2"), ("bool", b"\xC3")]
    z += [("f32", enc_f32(0x4048F5C3)), ("f64", enc_f64(0x400921FB54524550)), ("f64", enc_f64(0x47EFFFFFE0000001))]
    for n in (0, 1, 5, 31, 32):
        d = rand_bytes(rng, n)
        z += [("str", enc_str(d, k)) for k in str_formats(n)]
        z += [("bin", enc_bin(d, k)) for k in bin_formats(n)]
    for n in (0, 1, 15, 16):
        z += [("arr", enc_arr(n, k) + b"\x01" * n) for k in cnt_formats(n)]
        z += [("map", enc_map(n, k) + b"\x01\xC0" * n) for k in cnt_formats(n)]
    for n in (0, 1, 2, 4, 8, 16, 3, 12):
        d = rand_bytes(rng, n)
        for ty in (5, -1):
            z += [("ext", enc_ext(ty, d, k)) for k in ext_formats(n)]
    for s, ns in ((1, 0), (U(32), 0), (U(34) - 1, 999999999), (U(34), 5), (-1, 999999999)):
        for p in ts_payloads(s, ns):
            z += [("ts", enc_ext(-1, p, k)) for k in ext_formats(len(p))]
    z.append(("never", b"\xC1"))
    return z


def pair(fmt):
    return [fmt.format(src="mem"), fmt.format(src="stream")]


def gen_single(tier, rng, boost):
    q = tier == "quick"
    ops = []
    z = zoo(rng)
    tail = bytes([0xC3, 0x01])
    for bound in (CHUNK, 2 * CHUNK):
        for kind, t in (rng.sample(z, 45 * boost) if q else z):
            # the token starts `back` bytes before the boundary, so that header / length field / type byte / payload straddle it
            backs = sorted({0, 1, 2, 3, len(t) - 1, len(t), len(t) + 1, 5, 9} | ({rng.randrange(0, len(t) + 2)} if q else set(range(0, len(t) + 2))))
            if q:
                backs = rng.sample(backs, min(4, len(backs)))
            for back in backs:
                pre = bound - back
                if pre < 0:
                    continue
                Ts = [rng.choice(KIND_T[kind]), rng.choice(ALL_TARGETS)]
                for T in Ts:
                    ovf, mis = pol(rng)
                    ops += pair(f"mp.read {{src}} {ovf} {mis} {T} {pre} {hx(t + tail)}")
                ops += pair(f"mp.skip {{src}} {pre} {hx(t + tail)}")
                ops += pair(f"mp.type {{src}} {pre} {hx(t + tail)}")
                # truncated at the boundary region: every strict prefix of a short token
                if len(t) <= 20 and (not q or rng.random() < 0.25):
                    for cut in range(len(t)):
                        T = rng.choice(KIND_T[kind] + ["nil"])
                        ovf, mis = pol(rng)
                        ops += pair(f"mp.read {{src}} {ovf} {mis} {T} {pre} {hx(t[:cut])}")
                        if rng.random() < 0.5:
                            ops += pair(f"mp.skip {{src}} {pre} {hx(t[:cut])}")
                        else:
                            ops += pair(f"mp.type {{src}} {pre} {hx(t[:cut])}")
    # long flat payloads and wide containers across several chunks
    for n in (200, 255, 256, 257, 300, 600, 900):
        d = rand_bytes(rng, n)
        for pre in (0, 1, 250, 255):
            ops += pair(f"mp.read {{src}} throw throw str {pre} {hx(enc_str(d, rng.choice([2, 4])) + tail)}")
            ops += pair(f"mp.skip {{src}} {pre} {hx(enc_bin(d, rng.choice([2, 4])) + tail)}")
            ops += pair(f"mp.skip {{src}} {pre} {hx(enc_arr(n, 2) + bytes([1]) * n + tail)}")
            ops += pair(f"mp.read {{src}} throw skip u8 {pre} {hx(enc_str(d, 2) + tail)}")
            # declared size exceeds the data by 1 / by a chunk
            ops += pair(f"mp.read {{src}} throw throw str {pre} {hx(enc_str(d, 2)[:-1])}")
            ops += pair(f"mp.skip {{src}} {pre} {hx(enc_str(d, 4)[:-1])}")
    return ops


def _items(rng, n, big):
    """flat list of (call options, bytes): containers are entered (header is an item, children follow) or kept whole"""
    items = []
    nbig = 0
    while len(items) < min(n, 120):
        r = rng.random()
        if r < 0.12:
            k = rng.choice([0, 1, 2, 3, 15, 16, 17])
            enter = rng.random() < 0.6
            if rng.random() < 0.5:
                if enter:
                    items.append(("arr", enc_arr(k, rng.choice(cnt_formats(k)))))
                    n += k
                else:
                    items.append(("arrw", enc_arr(k, rng.choice(cnt_formats(k))) + b"".join(rand_doc(rng, 2, True)[1] for _ in range(k))))
            else:
                if enter:
                    items.append(("map", enc_map(k, rng.choice(cnt_formats(k)))))
                    n += 2 * k
                else:
                    items.append(("mapw", enc_map(k, rng.choice(cnt_formats(k))) + b"".join(rand_doc(rng, 2, True)[1] for _ in range(2 * k))))
        elif r < 0.2 and big and nbig < 3:
            nbig += 1
            m = rng.choice([200, 255, 256, 257, 300, 520, 900])
            d = rand_bytes(rng, m)
            if rng.random() < 0.6:
                items.append(("str", enc_str(d, rng.choice([2, 4]))))
            else:
                items.append(("binw", enc_bin(d, rng.choice([2, 4]))))
        elif r < 0.27:
            m = rng.choice([0, 1, 2, 5, 17])
            items.append(("binrb", (enc_bin(rand_bytes(rng, m), rng.choice(bin_formats(m))), m)))
        else:
            kind, b = rand_scalar(rng, small=True)
            items.append((kind, b))
    return items


def gen_histories(tier, rng, boost):
    q = tier == "quick"
    ops = []
    count = (260 if q else 6000) * boost
    for i in range(count):
        n = rng.choice([1, 2, 3, 5, 8, 13, 25, 40, 60])
        items = _items(rng, n, big=rng.random() < 0.5)
        # shift everything against the cache: leading nil bytes, consumed one by one or jumped over with SetPosition
        P = rng.choice([0, 0, 0, 0, 250, 254, 255, 256, 510])
        data = bytes([0xC0]) * P
        calls = [] if P == 0 else ([f"set:{P}"] if rng.random() < 0.5 else [rng.choice(["nil", "skip"])] * P)
        starts = []
        for kind, payload in items:
            starts.append(len(data))
            r = rng.random()
            if kind == "binrb":
                b, m = payload
                data += b
                if r < 0.7:
                    calls.append("bin")
                    calls += ["rb"] * m
                    if rng.random() < 0.1:
                        calls.append("rb")       # one byte too many: consumes the next value's first byte
                else:
                    calls.append(rng.choice(["skip", "str", "type"]))
                    if calls[-1] == "type":
                        calls.append("skip")
                continue
            data += payload
            base = {"arrw": "arr", "mapw": "map", "binw": "bin"}.get(kind, kind)
            if kind in ("arrw", "mapw", "binw"):
                calls.append(rng.choice(["skip", "skip", "type;skip", rng.choice(ALL_TARGETS)]) if r < 0.9 else base)
            elif r < 0.55:
                calls.append(rng.choice(KIND_T[base]))
            elif r < 0.7:
                calls.append("skip" if kind not in ("arr", "map") else kind)
            elif r < 0.8:
                calls.append("type")
                calls.append(rng.choice(KIND_T[base]))
            elif r < 0.9:
                calls.append(rng.choice(ALL_TARGETS))   # mostly a mismatch: policy decides (skip consumes the value)
            else:
                calls.append("pos")
                calls.append(rng.choice(KIND_T[base]))
            if rng.random() < 0.08:
                calls.append(rng.choice(["pos", "end"]))
            # go back to an earlier value and continue from there (cursor stays consistent: the following calls then
            # meet other values than planned, which exercises mismatches as well)
            if rng.random() < 0.06 and starts:
                calls.append(f"set:{rng.choice(starts)}")
        calls.append("end")
        if rng.random() < 0.3:
            calls += [f"set:{rng.choice(starts)}", rng.choice(["skip", "type", "str", "i64"]), "pos"]
        if rng.random() < 0.1:
            calls += [f"set:{len(data)}", "end", "nil"]
        if rng.random() < 0.06:
            calls += [f"set:{len(data) + rng.choice([1, 2, 255, 256, 257, 1000])}", "pos", "end"]
        r = rng.random()
        if r < 0.12 and len(data) > P + 1:
            data = data[:rng.randrange(P, len(data))]                        # truncated document
        elif r < 0.22 and len(data) > P:
            j = rng.randrange(P, len(data))
            data = data[:j] + bytes([rng.choice([data[j] ^ 0x01, data[j] ^ 0x80, 0xC1, 0xFF, 0x00, rng.getrandbits(8)])]) + data[j + 1:]
        ovf, mis = pol(rng)
        if rng.random() < 0.6:
            mis = "skip"
        cs = ";".join(calls)
        ops += pair(f"mp.seq {{src}} {ovf} {mis} {hx(data)} {cs}")
    return ops


def _wcall(rng):
    k = rng.choice(["nil", "bool", "int", "int", "int", "f32", "f64", "str", "str", "ts", "arr", "map", "bin", "bb"])
    if k == "nil":
        return "nil"
    if k == "bool":
        return f"bool:{rng.getrandbits(1)}"
    if k == "int":
        ty = rng.choice(list(INT_TYPES))
        lo, hi = INT_TYPES[ty]
        v = rng.choice([t for t in INT_THRESHOLDS if lo <= t <= hi] + [lo, hi, rng.randrange(lo, hi + 1)])
        return f"{ty}:{v}"
    if k == "f32":
        return "f32:%08x" % rng.choice(F32_SPECIAL + [rng.getrandbits(32)])
    if k == "f64":
        return "f64:%016x" % rng.choice(F64_SPECIAL + [rng.getrandbits(64)])
    if k == "str":
        n = rng.choice([0, 1, 31, 32, 33, 255, 256, 257, rng.randrange(0, 70)])
        return "str:" + hx(rand_bytes(rng, n))
    if k == "ts":
        s = rng.choice([0, 1, U(32) - 1, U(32), U(34) - 1, U(34), -1, -U(63), U(63) - 1, rng.randrange(0, U(35))])
        ns = rng.choice([0, 1, 999999999, rng.randrange(0, 1000000000), -1, U(31) - 1, -U(31)])
        return f"ts:{s}:{ns}"
    if k == "bb":
        return f"bb:{rng.getrandbits(8)}"
    n = rng.choice([0, 1, 15, 16, 17, 255, 256, 65535, 65536, U(32) - 1, rng.randrange(0, 70)] + ([U(32), U(64) - 1] if rng.random() < 0.15 else []))
    return f"{k}:{n}"


def gen_wsessions(tier, rng, boost):
    ops = []
    for _ in range((150 if tier == "quick" else 4000) * boost):
        n = rng.choice([1, 2, 3, 5, 8, 13, 25, 40])
        ops.append("mp.wseq " + ",".join(_wcall(rng) for _ in range(n)))
    return ops


def gen_c10mp(tier, rng, boost=1):
    return gen_single(tier, rng, boost) + gen_histories(tier, rng, boost) + gen_wsessions(tier, rng, boost)


gen = gen_c10mp


def extra_checks_c10mp(ops, impl, res, known_classes, known_hits):
    """memory vs stream: the same request must give the same answer (the property itself, independent of any model)"""
    bad = []
    seen = {}
    for op, ia in zip(ops, impl):
        t = op.split(" ")
        if t[0] not in ("mp.read", "mp.skip", "mp.type", "mp.seq") or len(t) < 3 or t[1] not in ("mem", "stream"):
            continue
        key = t[0] + " " + " ".join(t[2:])
        other = seen.get(key)
        if other is None:
            seen[key] = (t[1], ia)
        elif other[0] != t[1] and other[1] != ia:
            bad.append((op, ia, other[1], "bad:memory_and_stream_answers_differ"))
    return bad


extra_checks = extra_checks_c10mp
