"""C13 — encoded text streams: detection, BOM, chunked decoding are lossless."""
from .utfgen import *

THEOREMS = [
    "BSVerif.Props.C13.bom_table",
    "BSVerif.Props.C13.chunk_size_obligation",
    "BSVerif.Props.C13.detect_bom",
    "BSVerif.Props.C13.ambiguous",
    "BSVerif.Props.C13.analyse_no_zero",
    "BSVerif.Props.C13.detect_utf8_nobom",
    "BSVerif.Props.C13.detect_utf16le_nobom",
    "BSVerif.Props.C13.detect_utf16be_nobom",
    "BSVerif.Props.C13.detect_utf32le_nobom",
    "BSVerif.Props.C13.detect_utf32be_nobom",
    "BSVerif.Props.C13.readChunk_progress",
    "BSVerif.Props.C13.readAll_terminates",
    "BSVerif.Props.C13.writer_emits_standard_encoding",
    "BSVerif.Props.C13.writer_bom",
    "BSVerif.Props.C13.rejected_write_emits_nothing",
    "BSVerif.Props.C13.writer_session",
    "BSVerif.Props.C13.reads_back_of_detect",
    "BSVerif.Props.C13.read_lossless_bom",
    "BSVerif.Props.C13.read_lossless_bom'",
    "BSVerif.Props.C13.chunk_size_irrelevant",
    "BSVerif.Props.C13.read_lossless_nobom",
    "BSVerif.Props.C13.read_lossless_nobom'",
    "BSVerif.Props.C13.read_empty",
    "BSVerif.Props.C13.session_bytes",
    "BSVerif.Props.C13.write_then_read",
]
RULE = ("texts with code points of every UTF-8/UTF-16 length placed at every offset around the chunk boundary x 5 encodings x "
        "BOM on/off x 3 target widths x N in {32,36,64,256} x truncation points x both policies, through CEncodedStreamReader; "
        "CEncodedStreamWriter on multi-part texts; DetectEncoding on short inputs (memory) and on streams already advanced past a preamble (position left behind); non-trivial = stream longer than one chunk, "
        "or truncated, or multi-unit scalars present; distinct = distinct op lines")
EXHAUSTIVE = {"quick": False, "thorough": False}
ASSUMPTIONS = ["std::istringstream delivers min(n, available) bytes per read and sets eofbit only on a short read",
               "BOM-less detection is required only for NUL-free texts starting with an ASCII character (ambiguity theorem)",
               "little-endian host"]
TYPES = ["utf8", "utf16le", "utf16be", "utf32le", "utf32be"]
BOMS = {"utf8": [0xEF, 0xBB, 0xBF], "utf16le": [0xFF, 0xFE], "utf16be": [0xFE, 0xFF],
        "utf32le": [0xFF, 0xFE, 0, 0], "utf32be": [0, 0, 0xFE, 0xFF]}
WIDTH = {"utf8": 8, "utf16le": 16, "utf16be": 16, "utf32le": 32, "utf32be": 32}
NS = [32, 36, 64, 256]


def to_bytes(ty, us):
    w = WIDTH[ty]
    out = []
    for u in us:
        b = list(u.to_bytes(w // 8, "big" if ty.endswith("be") else "little"))
        out += b
    return out


def hexb(bs):
    return "".join("%02x" % b for b in bs) if bs else "-"


def nontrivial(op, impl):
    t = op.split(" ")
    if t[0] == "utf.read":
        return len(t[-1]) // 2 > int(t[1]) or "D" in impl or any(len(x) > 2 for x in impl.split(" ")[-1].split("."))
    return True


def nonnul_scalar(rng):
    c = rand_scalar(rng)
    return c if c != 0 else 0x41


def read_op(rng, ty, bom, t, n=None, wo=None, cut=None, pol=None):
    n = n or rng.choice(NS)
    wo = wo or rng.choice(WIDTHS)
    pol = pol or rng.choice(["skip", "skip", "throw"])
    mark = mark_tok(wo, rng.choice(MARKS[wo]))
    bs = (BOMS[ty] if bom else []) + to_bytes(ty, encs(WIDTH[ty], t))
    if cut is not None:
        bs = bs[:cut]
    return f"utf.read {n} {wo} {pol} {mark} {ty} {hexb(bs)}"


def gen(tier, rng, boost=1):
    ops = []
    # detection on short inputs
    for ty in TYPES:
        for t in ([0x41], [0x41, 0x42], [0x7A, 0xE9], [0x31, 0x10000], [0x20AC], []):
            for bom in (0, 1):
                bs = (BOMS[ty] if bom else []) + to_bytes(ty, encs(WIDTH[ty], t))
                ops.append(f"utf.detect {hexb(bs)}")
                for n in NS:
                    ops.append(read_op(rng, ty, bom, t, n=n))
    ops.append("utf.read 32 8 skip 3f utf8 -")
    # the istream overload of DetectEncoding on a stream that the caller has already advanced (a consumed preamble): the stream must be
    # left behind the BOM / at the position where detection started, RELATIVE to that position
    for ty in TYPES:
        for t in ([0x41], [0x41, 0x42, 0x43, 0x44, 0x45], [0x7A, 0xE9, 0x31], [0x31, 0x10000], [], [0x41] * 70, [0x20AC] * 200):
            for bom in (0, 1):
                bs = (BOMS[ty] if bom else []) + to_bytes(ty, encs(WIDTH[ty], t))
                for pre in (0, 1, 3, 4, 127, 128, 300):
                    for skip in (0, 1):
                        ops.append(f"utf.detects {pre} {skip} {hexb(bs)}")
    # BOM-less detection: ASCII first character followed by every kind of second character (control characters, Latin-1, BMP, supplementary):
    # the zero-byte pattern analysis must not confuse UTF-16 with UTF-32 or UTF-8
    seconds = [1, 2, 9, 0x0A, 0x0D, 0x0F, 0x10, 0x11, 0x1F, 0x20, 0x7F, 0x80, 0xFF, 0x100, 0x101, 0x7FF, 0x800, 0xFFFD, 0xFFFF, 0x10000, 0x10001, 0x10FFFF]
    for ty in TYPES:
        for first in (0x31, 0x41, 0x78, 0x7E, 0x01, 0x09, 0x7F):
            for second in seconds:
                for tail in ([], [0x0A, 0x32], [0x0D, 0x0A, 0x31, 0x0D, 0x0A]):
                    t = [first, second] + tail
                    bs = to_bytes(ty, encs(WIDTH[ty], t))
                    ops.append(f"utf.detect {hexb(bs)}")
                    ops.append(read_op(rng, ty, 0, t))
    # boundary placement: a multi-unit scalar at every offset around the chunk boundary
    specials = [0xE9, 0x20AC, 0x1F600, 0x10FFFF, 0x7FF, 0x800]
    for ty in TYPES:
        for n in (NS if tier == "thorough" else [32, 36, 256]):
            span = range(n - 8, n + 3) if tier == "quick" else range(n - 10, n + 6)
            for off in span:
                for bom in (0, 1):
                    c = rng.choice(specials)
                    unit_bytes = WIDTH[ty] // 8
                    lead = max(1, (off - (len(BOMS[ty]) if bom else 0)) // unit_bytes)
                    t = [0x41] + [rng.choice([0x62, 0x63, 0x7A]) for _ in range(lead - 1)] + [c] + [nonnul_scalar(rng) for _ in range(rng.choice([0, 1, 5, 40]))]
                    ops.append(read_op(rng, ty, bom, t, n=n))
    # random texts, several chunks, all truncation points for a few
    n_rand = (300 if tier == "quick" else 4000) * boost
    for _ in range(n_rand):
        ty = rng.choice(TYPES)
        bom = rng.random() < 0.5
        ln = rng.choice([1, 3, 10, 30, 70, 130, 300])
        t = [0x41 + rng.randrange(26)] + [nonnul_scalar(rng) for _ in range(ln)]
        ops.append(read_op(rng, ty, bom, t))
        if rng.random() < 0.3:
            total = len(BOMS[ty] if bom else []) + len(to_bytes(ty, encs(WIDTH[ty], t)))
            cuts = range(1, total) if total < 80 else rng.sample(range(1, total), 25)
            n = rng.choice(NS)
            for cut in cuts:
                ops.append(read_op(rng, ty, bom, t, n=n, cut=cut))
    # ill-formed content inside streams
    for _ in range((200 if tier == "quick" else 3000) * boost):
        ty = rng.choice(TYPES)
        w = WIDTH[ty]
        us = [0x41]
        for _ in range(rng.choice([2, 10, 60, 200])):
            us += enc(w, nonnul_scalar(rng))
            if rng.random() < 0.2:
                us.append(rng.choice([0x80, 0xC3, 0xF8, 0xFF, 0xE2] if w == 8 else [0xD800, 0xDC00, 0xDBFF] if w == 16 else [0xD800, 0x110000]))
        bs = BOMS[ty] + to_bytes(ty, us)
        wo = rng.choice(WIDTHS)
        pol = rng.choice(["skip", "throw"])
        ops.append(f"utf.read {rng.choice(NS)} {wo} {pol} {mark_tok(wo, rng.choice(MARKS[wo]))} {ty} {hexb(bs)}")
    # writer
    for _ in range((300 if tier == "quick" else 3000) * boost):
        ty = rng.choice(TYPES)
        wi = rng.choice(WIDTHS)
        parts = []
        for _ in range(rng.choice([1, 2, 4])):
            parts.append(units(wi, encs(wi, [rand_scalar(rng) for _ in range(rng.choice([0, 1, 3, 20]))])))
        ops.append(f"utf.write {ty} {rng.choice([0, 1])} {rng.choice(['skip', 'throw'])} {wi} {';'.join(parts)}")
    # writer: a rejected Write (ill-formed text under ThrowError; text ending inside a character under any policy) between accepted
    # ones must leave nothing in the stream
    bad_mid = {8: [0xFF, 0x80, 0xC3], 16: [0xDC00, 0xDFFF], 32: [0xD800, 0x110000]}
    bad_end = {8: [[0xC3], [0xE2, 0x98], [0xF0, 0x9F, 0x98]], 16: [[0xD83D], [0xD800]], 32: []}
    for _ in range((300 if tier == "quick" else 3000) * boost):
        ty = rng.choice(TYPES)
        wi = rng.choice(WIDTHS)
        pol = rng.choice(["skip", "throw", "throw"])
        parts = []
        for _ in range(rng.choice([2, 3, 5])):
            us = encs(wi, [rand_scalar(rng) for _ in range(rng.choice([1, 3, 20]))])
            r = rng.random()
            if r < 0.35:
                us = us + [rng.choice(bad_mid[wi])] + encs(wi, [rand_scalar(rng) for _ in range(rng.choice([0, 2]))])
            elif r < 0.6 and bad_end[wi]:
                us = us + rng.choice(bad_end[wi])
            parts.append(units(wi, us))
        parts.append(units(wi, encs(wi, [rand_scalar(rng) for _ in range(rng.choice([1, 4]))])))
        ops.append(f"utf.write {ty} {rng.choice([0, 1])} {pol} {wi} {';'.join(parts)}")
    # the CSV / JSON / XML stream entry points: a table saved in each encoding (BOM on/off) whose encoded size is a multiple of the
    # 256-byte chunk (-1 / 0 / +1) or arbitrary, loaded back with automatic detection
    for arch in ("csv", "json", "xml"):
        for ty in TYPES:
            for bom in (0, 1):
                for delta in ("0", "0", "-1", "1", "n"):
                    for _ in range(1 if tier == "quick" else 12):
                        ops.append(f"enc.rt {arch} {ty} {bom} {rng.randrange(1, 2 ** 31)} {delta}")
    return ops
