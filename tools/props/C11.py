"""C11 — transcoding valid Unicode text is exact and reversible."""
from .utfgen import *

THEOREMS = [
    "BSVerif.Props.C11.transcode_valid",
    "BSVerif.Props.C11.transcode_roundtrip",
    "BSVerif.Props.C11.decode8_valid",
    "BSVerif.Props.C11.encode8_valid",
    "BSVerif.Props.C11.decode16to32_valid",
    "BSVerif.Props.C11.encode16from32_valid",
    "BSVerif.Props.C11.copy16_valid",
    "BSVerif.Props.C11.utf8Decode_valid",
    "BSVerif.Props.C11.utf8Encode_valid",
    "BSVerif.Props.C11.utf16Decode_valid",
    "BSVerif.Props.C11.utf16Encode_valid",
    "BSVerif.Props.C11.utf32Decode_valid",
    "BSVerif.Props.C11.utf32Encode_valid",
    "BSVerif.Props.C11.reverse16_involutive",
    "BSVerif.Props.C11.reverse32_involutive",
    "BSVerif.Props.C11.reverse16_is_be",
    "BSVerif.Props.C11.reverse32_is_be",
    "BSVerif.Props.C11.consts_surrogates",
]
RULE = ("valid scalar lists (boundary-biased per UTF-8/UTF-16 length class; thorough: every one of the 1,112,064 scalars) "
        "x 9 width pairs via Transcode + LE/BE Decode/Encode classes x {skip,throw} x marks x non-empty prior output; "
        "non-trivial = op whose input has at least one multi-unit scalar or non-empty prior output; distinct = distinct op lines")
EXHAUSTIVE = {"quick": False, "thorough": True}
ASSUMPTIONS = ["code units fed to the model are < 2^w (what the C++ character type can hold)",
               "little-endian host (the big-endian `if constexpr` branches are not executed)"]
ENCS = {8: ["8"], 16: ["16", "16le", "16be"], 32: ["32", "32le", "32be"]}


def nontrivial(op, impl):
    t = op.split(" ")
    return t[-2] != "-" or any(len(u) > 2 and int(u, 16) > 0x7F for u in t[-1].split(".") if u != "-")


def text_ops(rng, t, full=False):
    ops = []
    pairs = [(a, b) for a in WIDTHS for b in WIDTHS]
    if not full:
        pairs = rng.sample(pairs, 3)
    for wi, wo in pairs:
        pol = rng.choice(["skip", "throw"])
        mark = mark_tok(wo, rng.choice(MARKS[wo]))
        out0 = units(wo, encs(wo, [rand_scalar(rng) for _ in range(rng.choice([0, 0, 1, 3]))]))
        ops.append(f"utf.transcode {wi} {wo} {pol} {mark} {out0} {units(wi, encs(wi, t))}")
        # typed entry points incl. LE/BE
        if wi != 8 or wo != 8:
            src = rng.choice(ENCS[wi])
            inp = encs(wi, t)
            if src.endswith("be"):
                inp = [rev(wi, u) for u in inp]
            if not (wi == 8 and wo == 8):
                ops.append(f"utf.dec {src} {wo} {pol} {mark} {out0} {units(wi, inp)}")
            dst = rng.choice(ENCS[wo])
            ops.append(f"utf.enc {dst} {wi} {pol} {mark} {out0} {units(wi, encs(wi, t))}")
    return ops


def gen(tier, rng, boost=1):
    ops = []
    # every boundary scalar alone, all nine pairs
    for c in BOUNDARY:
        if is_scalar(c):
            ops += text_ops(rng, [c], full=True)
    n = (600 if tier == "quick" else 6000) * boost
    for _ in range(n):
        ln = rng.choice([0, 1, 1, 2, 3, 5, 8, 13, 40, 200] if tier == "quick" else [0, 1, 2, 3, 5, 8, 13, 40, 200, 1000, 4096])
        t = [rand_scalar(rng) for _ in range(ln)]
        ops += text_ops(rng, t)
    if tier == "thorough":
        # exhaustive: every scalar value individually, in blocks of 64 scalars per op (each op = 64 scalars
        # concatenated; a wrong scalar anywhere changes the output), for all six cross-width pairs and both policies
        block = []
        for c in range(0x110000):
            if not is_scalar(c):
                continue
            block.append(c)
            if len(block) == 64:
                for wi in WIDTHS:
                    for wo in WIDTHS:
                        if wi != wo:
                            pol = "skip" if (c >> 6) & 1 else "throw"
                            ops.append(f"utf.transcode {wi} {wo} {pol} 3f - {units(wi, encs(wi, block))}")
                block = []
        if block:
            for wi in WIDTHS:
                for wo in WIDTHS:
                    if wi != wo:
                        ops.append(f"utf.transcode {wi} {wo} skip 3f - {units(wi, encs(wi, block))}")
    return ops
