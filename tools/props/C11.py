"""C11 — transcoding valid Unicode text is exact and reversible."""
from .utfgen import *

THEOREMS = [
    "BSVerif.Props.C11.transcode_valid",
    "BSVerif.Props.C11.transcode_roundtrip",
    "BSVerif.Props.C11.decode8_valid",
    "BSVerif.Props.C11.encode8_valid",
    "BSVerif.Props.C11.decode16to32_valid",
    "BSVerif.Props.C11.encode16from32_valid",
    "BSVerif.Props.C11.copy16_valid",
    "BSVerif.Props.C11.utf8Decode_valid",
    "BSVerif.Props.C11.utf8Encode_valid",
    "BSVerif.Props.C11.utf16Decode_valid",
    "BSVerif.Props.C11.utf16Encode_valid",
    "BSVerif.Props.C11.utf32Decode_valid",
    "BSVerif.Props.C11.utf32Encode_valid",
    "BSVerif.Props.C11.reverse16_involutive",
    "BSVerif.Props.C11.reverse32_involutive",
    "BSVerif.Props.C11.reverse16_is_be",
    "BSVerif.Props.C11.reverse32_is_be",
    "BSVerif.Props.C11.consts_surrogates",
]
RULE = ("valid scalar lists (boundary-biased per UTF-8/UTF-16 length class; thorough: every one of the 1,112,064 scalars) "
        "x 9 width pairs via Transcode + LE/BE Decode/Encode classes x {skip,throw} x marks x non-empty prior output; Convert::To between the "
        "string types (std::basic_string / string_view / C string sources, U+0000 inside the text, init-argument strings); "
        "non-trivial = op whose input has at least one multi-unit scalar or non-empty prior output; distinct = distinct op lines")
EXHAUSTIVE = {"quick": False, "thorough": True}
ASSUMPTIONS = ["code units fed to the model are < 2^w (what the C++ character type can hold)",
               "little-endian host (the big-endian `if constexpr` branches are not executed)"]
ENCS = {8: ["8"], 16: ["16", "16le", "16be"], 32: ["32", "32le", "32be"]}


def nontrivial(op, impl):
    t = op.split(" ")
    return t[-2] != "-" or any(len(u) > 2 and int(u, 16) > 0x7F for u in t[-1].split(".") if u != "-")


def text_ops(rng, t, full=False):
    ops = []
    pairs = [(a, b) for a in WIDTHS for b in WIDTHS]
    if not full:
        pairs = rng.sample(pairs, 3)
    for wi, wo in pairs:
        pol = rng.choice(["skip", "throw"])
        mark = mark_tok(wo, rng.choice(MARKS[wo]))
        out0 = units(wo, encs(wo, [rand_scalar(rng) for _ in range(rng.choice([0, 0, 1, 3]))]))
        if rng.random() < 0.3:
            # prior content of the output string is opaque to the transcoder (for the BE classes it is already byte-swapped):
            # arbitrary raw units, incl. values that look like surrogates, must be left alone
            raw = {8: [0x41, 0x80, 0xC3, 0xFF, 0xD8, 0], 16: [0xD800, 0xDBFE, 0xDBFF, 0xDC00, 0xFFFF, 0x00D8, 0, 0x41], 32: [0xD800, 0x110000, 0xFFFFFFFF, 0, 0x41]}[wo]
            out0 = units(wo, [rng.choice(raw) for _ in range(rng.choice([1, 2, 4]))])
        ops.append(f"utf.transcode {wi} {wo} {pol} {mark} {out0} {units(wi, encs(wi, t))}")
        if (wi == 32 or wo == 32) and wi != wo:
            ops.append(f"utf.transcodew {wi} {wo} {pol} {mark} {out0} {units(wi, encs(wi, t))}")     # wchar_t on the 32-bit side
        # typed entry points incl. LE/BE
        if wi != 8 or wo != 8:
            src = rng.choice(ENCS[wi])
            inp = encs(wi, t)
            if src.endswith("be"):
                inp = [rev(wi, u) for u in inp]
            if not (wi == 8 and wo == 8):
                ops.append(f"utf.dec {src} {wo} {pol} {mark} {out0} {units(wi, inp)}")
            dst = rng.choice(ENCS[wo])
            ops.append(f"utf.enc {dst} {wi} {pol} {mark} {out0} {units(wi, encs(wi, t))}")
    return ops


def convert_ops(rng, t):
    """Convert::To<string type>(string source) for every ordered pair of string types and every form of source (std::basic_string,
    string_view, C string) with and without an existing string as init-argument; U+0000 may be INSIDE the text (basic_string / view)"""
    ops = []
    ws = ["8", "16", "32", "w"]
    for _ in range(3):
        a, b = rng.choice(ws), rng.choice(ws)
        wi, wo = (32 if a == "w" else int(a)), (32 if b == "w" else int(b))
        out0 = units(wo, encs(wo, [rand_scalar(rng) for _ in range(rng.choice([0, 0, 0, 1, 3]))]))
        forms = ["view"] + (["str"] if a != b else []) + (["cstr"] if 0 not in t else [])
        ops.append(f"utf.convert {a} {b} {rng.choice(forms)} {out0} {units(wi, encs(wi, t))}")
    return ops


def wstr_ops(tier, rng, boost=1):
    """string values and keys of every width inside the four archives (save + load through the real archives)"""
    def xml_char(c):
        return (c in (0x20, 0x21) or 0x23 <= c <= 0x25 or 0x28 <= c <= 0x3B or c == 0x3D or 0x3F <= c <= 0x7E or 0xA1 <= c <= 0xD7FF
                or 0xE000 <= c <= 0xFFFD or 0x10000 <= c <= 0x10FFFF)
    def name_char(c):
        return 0x61 <= c <= 0x7A or 0x410 <= c <= 0x44F or 0x4E00 <= c <= 0x4E80 or 0x10400 <= c <= 0x1044F
    ops = []
    n = (60 if tier == "quick" else 1500) * boost
    special = [0, 1, 0x7F, 0x80, 0x7FF, 0x800, 0xFFFF, 0xFFFD, 0xFEFF, 0x10000, 0x10FFFF, 0x1F3FF, 0xD7FF, 0xE000, 0x22, 0x5C, 0x2C, 0x3C, 0x26, 0x0A, 0x0D]
    for i in range(n):
        for arch in ("mp", "json", "xml", "csv"):
            ln = rng.choice([1, 2, 5, 20, 300])
            val = [rng.choice(special) if rng.random() < 0.3 else rand_scalar(rng) for _ in range(ln)]
            key = [rng.choice([0x61, 0x6B, 0x416, 0x4E2D, 0x10428]) for _ in range(rng.choice([1, 2, 6]))]
            if arch == "xml":
                val = [c for c in val if xml_char(c)] or [0x41]
                val = [0x41] + val + [0x42]                      # white-space-only / edge blanks are a recorded XML finding (C08)
            else:
                if arch == "csv":
                    val = [c for c in val if c != 0] or [0x41]          # NUL confuses BOM-less detection of the CSV stream (C13 scope)
            key = [c for c in key if name_char(c)] or [0x6B]
            w = rng.choice(["8", "16", "32", "w"])
            wn = 32 if w == "w" else int(w)
            ops.append(f"wstr.rt {arch} {rng.choice(['mem', 'stream'])} {w} {units(wn, encs(wn, val))} {units(wn, encs(wn, key))}")
    return ops


def gen(tier, rng, boost=1):
    ops = []
    # every boundary scalar alone, all nine pairs
    for c in BOUNDARY:
        if is_scalar(c):
            ops += text_ops(rng, [c], full=True)
    n = (600 if tier == "quick" else 6000) * boost
    for _ in range(n):
        ln = rng.choice([0, 1, 1, 2, 3, 5, 8, 13, 40, 200] if tier == "quick" else [0, 1, 2, 3, 5, 8, 13, 40, 200, 1000, 4096])
        t = [rand_scalar(rng) for _ in range(ln)]
        ops += text_ops(rng, t)
        if ln and rng.random() < 0.5:
            t = list(t)
            t[rng.randrange(len(t))] = 0            # U+0000 inside the text
        ops += convert_ops(rng, t)
    for c in BOUNDARY:
        if is_scalar(c):
            for a in ("8", "16", "32", "w"):
                for b in ("8", "16", "32", "w"):
                    if a != b:
                        wi = 32 if a == "w" else int(a)
                        ops.append(f"utf.convert {a} {b} str - {units(wi, encs(wi, [0x41, c, 0, c, 0x42]))}")
    ops += wstr_ops(tier, rng, boost)
    if tier == "thorough":
        # exhaustive: every scalar value individually, in blocks of 64 scalars per op (each op = 64 scalars
        # concatenated; a wrong scalar anywhere changes the output), for all six cross-width pairs and both policies
        block = []
        for c in range(0x110000):
            if not is_scalar(c):
                continue
            block.append(c)
            if len(block) == 64:
                for wi in WIDTHS:
                    for wo in WIDTHS:
                        if wi != wo:
                            pol = "skip" if (c >> 6) & 1 else "throw"
                            ops.append(f"utf.transcode {wi} {wo} {pol} 3f - {units(wi, encs(wi, block))}")
                block = []
        if block:
            for wi in WIDTHS:
                for wo in WIDTHS:
                    if wi != wo:
                        ops.append(f"utf.transcode {wi} {wo} skip 3f - {units(wi, encs(wi, block))}")
    return ops
