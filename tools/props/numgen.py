"""Shared generators for the numeric-conversion properties (C04, C16)."""
import struct

INT_TYPES = {  # token -> (bits, signed)
    "i8": (8, True), "u8": (8, False), "i16": (16, True), "u16": (16, False),
    "i32": (32, True), "u32": (32, False), "i64": (64, True), "u64": (64, False),
    "char": (8, True), "c16": (16, False), "c32": (32, False), "wc": (32, True),
}
FLOAT_TYPES = {"f32": 32, "f64": 64}
ALL_TYPES = ["i8", "u8", "i16", "u16", "i32", "u32", "i64", "u64", "bool", "char", "c16", "c32", "wc", "f32", "f64"]
TEXT_TYPES = ["i8", "u8", "i16", "u16", "i32", "u32", "i64", "u64", "char"]       # from_chars / to_chars exist
WIDTHS = ["8", "16", "32", "w"]
WBITS = {"8": 8, "16": 16, "32": 32, "w": 32}


def rng_of(t):
    if t == "bool":
        return 0, 1
    b, s = INT_TYPES[t]
    return (-(1 << (b - 1)), (1 << (b - 1)) - 1) if s else (0, (1 << b) - 1)


def fits(t, v):
    lo, hi = rng_of(t)
    return lo <= v <= hi


def boundary_ints():
    """every type limit +-2, +-2^k +-1, float exactness thresholds, values that round up to 2^N in float/double"""
    vs = set()
    for k in range(0, 65):
        for d in (-2, -1, 0, 1, 2):
            vs.add((1 << k) + d)
            vs.add(-(1 << k) + d)
    for k in (24, 25, 53, 54):                       # integers exactly representable up to 2^24 / 2^53
        for d in range(-3, 4):
            vs.add((1 << k) + d)
            vs.add(-(1 << k) + d)
    for top in (31, 32, 63, 64):                     # neighbourhood where static_cast<float/double> rounds up to 2^top
        for mant in (24, 53):
            if top > mant:
                ulp = 1 << (top - mant)
                for d in (-2, -1, 0, 1, 2):
                    vs.add((1 << top) - ulp + d)
                    vs.add((1 << top) - ulp // 2 + d)
                    vs.add((1 << top) - ulp - ulp // 2 + d)
                    vs.add(-(1 << top) + ulp + d)
                    vs.add(-(1 << top) + ulp // 2 + d)
    vs |= {0, 1, -1, 2, -2, 10, 100, 127, 128, 255, 256}
    return sorted(vs)


def rand_int(rng):
    k = rng.choice([1, 4, 7, 8, 9, 15, 16, 17, 23, 24, 25, 31, 32, 33, 52, 53, 54, 62, 63, 64])
    v = rng.getrandbits(k)
    if rng.random() < 0.3 and k > 24:
        v &= ~((1 << rng.randrange(1, k - 1)) - 1)   # trailing zero bits: exactly representable as float
    return -v if rng.random() < 0.45 else v


def f32_bits(x):
    return struct.unpack("<I", struct.pack("<f", x))[0]


def f64_bits(x):
    return struct.unpack("<Q", struct.pack("<d", x))[0]


def fhex(t, bits):
    return f"{bits:08x}" if t == "f32" else f"{bits:016x}"


F32_SPECIAL = [0x00000000, 0x80000000, 0x00000001, 0x80000001, 0x00000002, 0x007fffff, 0x00800000, 0x00800001, 0x807fffff,
               0x3f800000, 0xbf800000, 0x3f7fffff, 0x3f800001, 0x4b800000, 0x4b7fffff, 0x4b800001, 0x4f000000, 0x4effffff,
               0x4f800000, 0x4f7fffff, 0x5f000000, 0x5effffff, 0xdf000000, 0xdf000001, 0x5f800000, 0x5f7fffff,
               0x7f7fffff, 0xff7fffff, 0x7f7ffffe, 0x7f800000, 0xff800000, 0x7fc00000, 0xffc00000, 0x7f800001, 0x7fa00000,
               0x7fffffff, 0xff800001, 0x3dcccccd, 0x40490fdb, 0x501502f9, 0x41200000, 0x42c80000, 0x461c4000, 0x47c35000]
F64_SPECIAL = [0x0000000000000000, 0x8000000000000000, 0x0000000000000001, 0x8000000000000001, 0x000fffffffffffff,
               0x0010000000000000, 0x0010000000000001, 0x3ff0000000000000, 0xbff0000000000000, 0x3fefffffffffffff,
               0x3ff0000000000001, 0x4330000000000000, 0x432fffffffffffff, 0x4340000000000000, 0x433fffffffffffff, 0x4340000000000001,
               0x41e0000000000000, 0x41dfffffffc00000, 0x41efffffffe00000, 0x41f0000000000000, 0x43e0000000000000,
               0x43dfffffffffffff, 0xc3e0000000000000, 0xc3e0000000000001, 0x43f0000000000000, 0x43efffffffffffff,
               0x7fefffffffffffff, 0xffefffffffffffff, 0x7ff0000000000000, 0xfff0000000000000, 0x7ff8000000000000,
               0xfff8000000000000, 0x7ff0000000000001, 0x7ff4000000000000, 0x7fffffffffffffff,
               # around FLT_MAX / FLT_MAX + half ulp / lowest
               0x47efffffe0000000, 0x47efffffe0000001, 0x47efffffdfffffff, 0x47effffff0000000, 0x47efffffefffffff, 0x47effffff0000001,
               0x47f0000000000000, 0xc7efffffe0000000, 0xc7efffffe0000001, 0xc7efffffdfffffff, 0xc7f0000000000000,
               # around the float subnormal / underflow thresholds (2^-149, 2^-150, 2^-126)
               0x36a0000000000000, 0x3690000000000000, 0x3690000000000001, 0x368fffffffffffff, 0x36a8000000000000,
               0x36a7ffffffffffff, 0x36a8000000000001, 0x3810000000000000, 0x380fffffffffffff, 0x380fffffe0000000,
               0x380ffffff0000000, 0x3ff0000010000000, 0x3ff0000010000001, 0x3ff000000fffffff, 0x3ff0000030000000,
               0x3fb999999999999a, 0x400921fb54442d18, 0x4024000000000000, 0x4059000000000000, 0x40c3880000000000,
               0x40f86a0000000000, 0x4415af1d78b58c40, 0x44505e7ea12d3f80, 0x4480f0cf064dd592, 0x3ee4f8b588e368f1, 0x3f1a36e2eb1c432d]


def rand_float_bits(rng, t):
    n = 32 if t == "f32" else 64
    mant = 23 if t == "f32" else 52
    r = rng.random()
    if r < 0.35:
        return rng.getrandbits(n)
    if r < 0.5:                                    # small integers / halves
        x = rng.randrange(-100000, 100000) / rng.choice([1, 2, 4, 8, 10, 100, 1000])
        return f32_bits(x) if t == "f32" else f64_bits(x)
    if r < 0.65:                                   # powers of two and ten
        if rng.random() < 0.5:
            e = rng.randrange(-160, 160) if t == "f32" else rng.randrange(-1080, 1024)
            try:
                x = 2.0 ** e
            except OverflowError:
                x = 1.0
        else:
            e = rng.randrange(-46, 39) if t == "f32" else rng.randrange(-324, 309)
            x = float(f"1e{e}")
        try:
            return f32_bits(x) if t == "f32" else f64_bits(x)
        except OverflowError:
            return 0x7f800000
    if r < 0.8:                                    # subnormals
        return (rng.getrandbits(1) << (n - 1)) | rng.getrandbits(rng.randrange(1, mant + 1))
    if r < 0.9:                                    # few significant bits
        e = rng.getrandbits(n - 1 - mant)
        m = rng.getrandbits(rng.randrange(1, 12)) << rng.randrange(0, mant - 12)
        return (rng.getrandbits(1) << (n - 1)) | (e << mant) | (m & ((1 << mant) - 1))
    # large integers-valued floats
    x = float(rng.getrandbits(rng.randrange(20, 70)))
    try:
        return f32_bits(x) if t == "f32" else f64_bits(x)
    except OverflowError:
        return 0x7f7fffff


def units(w, text):
    """text: list of code units (ints) -> op token"""
    if not text:
        return "-"
    nib = WBITS[w] // 4
    return ".".join(f"{u:0{nib}x}" for u in text)


def ustr(s):
    return [ord(c) for c in s]
