"""Generator of mp.scope ops (token documents + request histories) shared by C03, C05, C10."""

TYS = ["i", "b", "s", "d", "n", "x"]          # x = CBinTimestamp target

# timestamps stay within the timestamp 32 / timestamp 64 layouts (0 <= sec < 2^34): the 96-bit layout is the recorded
# C07 class ts96-seconds-first-read
TS_SECS = [0, 1, 5, 1700000000, 2 ** 32 - 1, 2 ** 32, 2 ** 34 - 1]
TS_NS = [0, 0, 1, 123456789, 999999999]
EXT_LENS = [0, 1, 2, 3, 4, 5, 8, 9, 16, 17, 255, 256, 300]
EXT_TYPES = [0, 1, 5, 42, 127, -128, -2]
BIN_LENS = [0, 1, 5, 300]
BIG_INTS = [2 ** 63 - 1, 2 ** 63, 2 ** 64 - 1]


def rand_ts(rng):
    return "T%d:%d" % (rng.choice(TS_SECS), rng.choice(TS_NS))


def hexb(bs):
    return "".join("%02x" % b for b in bs) if bs else "-"


def rand_key(rng, used):
    while True:
        r = rng.random()
        if r < 0.08:
            k = rand_ts(rng)
        elif r < 0.77:
            k = "s" + hexb([rng.choice(b"abcdefgxyz_0123") for _ in range(rng.choice([1, 1, 2, 3, 8]))])
        else:
            k = "i" + str(rng.choice([0, 1, 2, 5, 127, 128, 255, 256, 70000, -1, -32, -33, -200, 65535, 2 ** 31 - 1, 2 ** 31, 2 ** 32 - 1,
                                      2 ** 32, 2 ** 63 - 1, 2 ** 63, 2 ** 64 - 1, 2 ** 64 - 200, -2 ** 31, -2 ** 63, 2 ** 32 - 200]))
        if k not in used:
            used.add(k)
            return k


def rand_scalar(rng):
    r = rng.random()
    if r < 0.07:
        # ext values of any type / length (fixext 1/2/4/8/16, ext 8, ext 16): they must be skipped header + payload
        ln = rng.choice(EXT_LENS)
        return "x%d:%s" % (rng.choice(EXT_TYPES), hexb([rng.randrange(256) for _ in range(ln)])), "X"
    if r < 0.14:
        return rand_ts(rng), "x"
    if r < 0.17:
        # integers at the edge of int64: 2^63 and above do not fit the int64 target (overflow)
        return "i%d" % rng.choice(BIG_INTS), "I"
    if r < 0.40:
        return "i" + str(rng.choice([0, 1, 7, 127, 128, 255, 256, 65535, 65536, 2 ** 31, 2 ** 40, -1, -32, -33, -129, -40000, -2 ** 33, rng.randrange(-1000, 1000)])), "i"
    if r < 0.5:
        return rng.choice(["t", "f"]), "b"
    if r < 0.75:
        ln = rng.choice([0, 1, 3, 10, 31, 32, 40, 200, 300])
        return "s" + hexb([rng.randrange(32, 127) for _ in range(ln)]), "s"
    if r < 0.85:
        return "d" + "%016x" % rng.choice([0, 0x3ff0000000000000, 0xc00921fb54442d18, 0x7ff0000000000000]), "d"
    return "n", "n"


class Node:
    def __init__(self, kind, toks, ty=None, items=None, entries=None):
        self.kind = kind          # 'sc' | 'arr' | 'map'
        self.toks = toks
        self.ty = ty
        self.items = items or []
        self.entries = entries or []


def rand_bin(rng):
    bs = [rng.randrange(256) for _ in range(rng.choice(BIN_LENS))]
    if bs and rng.random() < 0.3:
        # payload bytes that look like MessagePack headers: a reader left inside the payload would follow them
        bs = [rng.choice([0xC4, 0x92, 0x81, 0xA3, 0xC0, 0xD6, 0xFF, 0x01]) for _ in bs]
    node = Node("bin", ["b" + hexb(bs)])
    node.bytes = bs
    return node


def rand_value(rng, depth):
    r = rng.random()
    if r < 0.12:
        return rand_bin(rng)
    if depth <= 0 or r < 0.6:
        t, ty = rand_scalar(rng)
        return Node("sc", [t], ty=ty)
    if r < 0.8:
        n = rng.choice([0, 1, 2, 3, 5])
        items = [rand_value(rng, depth - 1) for _ in range(n)]
        return Node("arr", ["a%d" % n] + [t for it in items for t in it.toks], items=items)
    return rand_object(rng, depth - 1)


def rand_object(rng, depth, nkeys=None):
    n = nkeys if nkeys is not None else rng.choice([0, 1, 2, 3, 4, 6])
    used = set()
    entries = []
    toks = ["m%d" % n]
    for _ in range(n):
        k = rand_key(rng, used)
        v = rand_value(rng, depth)
        entries.append((k, v))
        toks += [k] + v.toks
    return Node("map", toks, entries=entries)


def key_variant(rng, k):
    """the same integer key passed to the scope as int64_t (`i`), int32_t (`j`) or uint64_t (`u`)"""
    if k[0] == "s":
        # string keys: sometimes passed in a fixed-size char buffer (C string) instead of a std::string
        b = bytes.fromhex(k[1:]) if k[1:] != "-" else b""
        return ("c" + k[1:]) if (0 < len(b) < 20 and 0 not in b and rng.random() < 0.25) else k
    if k[0] != "i":
        return k
    v = int(k[1:])
    opts = []
    if -2 ** 63 <= v < 2 ** 63: opts += ["i", "i"]
    if -2 ** 31 <= v < 2 ** 31: opts.append("j")
    if 0 <= v < 2 ** 64: opts.append("u")
    return rng.choice(opts) + str(v)


def key_twins(k):
    """absent keys whose two's-complement image in some C++ integer type equals the stored integer key"""
    if k[0] != "i":
        return []
    v = int(k[1:])
    tw = []
    if v >= 2 ** 63: tw.append("i" + str(v - 2 ** 64))
    if 2 ** 31 <= v < 2 ** 32: tw.append("j" + str(v - 2 ** 32))
    if v < 0: tw += ["u" + str(v + 2 ** 64)] + (["u" + str(v + 2 ** 32)] if v >= -2 ** 31 else [])
    if 0 <= v < 2 ** 32: tw.append("u" + str(v + 2 ** 32))
    return tw


def other_ty(rng, ty):
    """a request type for a scalar of kind `ty`: mostly the right one; never the int<->bool funnel (ReadInteger
    loads booleans into integer targets and 0/1 into bool targets: that is C04/C07 territory)"""
    if ty in TYS and rng.random() < 0.8:
        return ty
    if ty == "I":
        return rng.choice(["i", "i", "b", "s"])          # at the edge of int64: as int, as bool, as string
    excl = {"i": ("b",), "b": ("i",)}.get(ty, ())
    return rng.choice([t for t in TYS if t not in excl])


def bin_reqs(rng, node, ctx):
    """requests inside a binary scope (without the open/close): read fully / partly / not at all; IsEnd anywhere;
    sometimes one read past the end (OutOfRange: the run ends)"""
    n = len(node.bytes)
    mode = rng.random()
    k = n if mode < 0.4 else (0 if mode < 0.55 else rng.randrange(0, n + 1))
    reqs = []
    for _ in range(k):
        reqs.append("r")
        if rng.random() < 0.05:
            reqs.append("e")
    if rng.random() < 0.2:
        reqs.append("e")
    if k == n and rng.random() < 0.08:
        reqs.append("r")
        ctx["stop"] = True
    return reqs


def not_bin_probe(rng, reqs, open_req):
    """OpenBinaryScope on a value that is not a `bin`: answers F and must leave the value in place (and uncounted)"""
    if rng.random() < 0.12:
        reqs.append(open_req)
        return True
    return False


def array_reqs(rng, node, ctx):
    """requests inside an array scope (without the open/close). The scope may be closed before all of its elements
    were read (its destructor skips the rest), and the enclosing scopes go on afterwards.
    ctx['stop'] is set when a request raises an exception: the run ends there."""
    reqs = []
    n = len(node.items)
    upto = n if rng.random() < 0.65 else rng.randrange(0, n + 1)
    for it in node.items[:upto]:
        if it.kind != "bin":
            not_bin_probe(rng, reqs, "B")
        if it.kind == "bin":
            r = rng.random()
            if r < 0.8:
                reqs += ["B"] + bin_reqs(rng, it, ctx) + ["c"]
            else:
                reqs.append(rng.choice(["n=s", "n=s", "a", "n=i", "o"]))     # requested as string / as something else
        elif it.kind == "sc":
            if rng.random() < 0.12:
                # a scalar (or nil) element asked for as an array / object: F (nil, or Skip) — the element is consumed exactly once
                reqs.append(rng.choice(["a", "o"]))
            else:
                reqs.append("n=" + other_ty(rng, it.ty))
        elif it.kind == "arr":
            if rng.random() < 0.85:
                reqs += ["a"] + array_reqs(rng, it, ctx) + ["c"]
            else:
                reqs.append(rng.choice(["o", "n=i"]))
        else:
            if rng.random() < 0.85:
                reqs += ["o"] + object_reqs(rng, it, ctx) + ["c"]
            else:
                reqs.append(rng.choice(["a", "n=s"]))
        if ctx["stop"]:
            return reqs
        if rng.random() < 0.1:
            reqs.append("e")
    if upto < n:
        pass                                            # left partly read: ~CMsgPackReadArrayScope skips the rest
    elif rng.random() < 0.1:
        reqs.append(rng.choice(["n=i", "a", "e", "B"]))     # one past the end -> OutOfRange / IsEnd
        if reqs[-1] != "e":
            ctx["stop"] = True                          # exception: the run ends here
    return reqs


def object_reqs(rng, node, ctx):
    reqs = []
    keys = [k for k, _ in node.entries]
    lookup = dict(node.entries)
    order = list(keys)
    mode = rng.random()
    if mode < 0.3:
        order.reverse()
    elif mode < 0.7:
        rng.shuffle(order)
    if rng.random() < 0.4 and order:
        order = order[:rng.randrange(0, len(order) + 1)]          # fields never requested
    extra = rng.choice([0, 0, 1, 3])
    for _ in range(extra):
        order.insert(rng.randrange(0, len(order) + 1), rng.choice(keys + ["s7a7a7a", "i999", "s-"]) if keys else "s7a7a")
    present = {int(k[1:]) for k in keys if k[0] == "i"}
    twins = [t for k in keys for t in key_twins(k) if int(t[1:]) not in present]
    for t in twins:
        if rng.random() < 0.7:
            order.insert(rng.randrange(0, len(order) + 1), t)
    for k in order:
        v = lookup.get(k)
        k = key_variant(rng, k)
        if rng.random() < 0.07:
            reqs.append("v")
        if v is not None and v.kind != "bin" and not_bin_probe(rng, reqs, "B" + k) and rng.random() < 0.3:
            continue                                     # … and go on with ANOTHER key: the value left in place is passed over
        if v is None:
            reqs.append(rng.choice(["g%s=i" % k, "g%s=s" % k, "A" + k, "O" + k, "B" + k]))
        elif v.kind == "bin":
            r = rng.random()
            if r < 0.8:
                reqs += ["B" + k] + bin_reqs(rng, v, ctx) + ["c"]
            else:
                reqs.append(rng.choice(["g%s=s" % k, "g%s=s" % k, "A" + k, "g%s=i" % k, "O" + k]))
        elif v.kind == "sc":
            if rng.random() < 0.1:
                reqs.append(rng.choice(["A" + k, "O" + k]))          # a scalar / nil member asked for as a container
            else:
                reqs.append("g%s=%s" % (k, other_ty(rng, v.ty)))
        elif v.kind == "arr":
            if rng.random() < 0.85:
                reqs += ["A" + k] + array_reqs(rng, v, ctx) + ["c"]
            else:
                reqs.append(rng.choice(["O" + k, "g%s=i" % k]))
        else:
            if rng.random() < 0.85:
                reqs += ["O" + k] + object_reqs(rng, v, ctx) + ["c"]
            else:
                reqs.append(rng.choice(["A" + k, "g%s=s" % k]))
        if ctx["stop"]:
            return reqs
    return reqs


def truncate_tokens(rng, toks):
    """cut the token list somewhere (token-level truncation): scopes that are closed over the missing part
    must defer the ParsingException of their skip loop to Finalize()"""
    if len(toks) < 2:
        return toks
    return toks[:rng.randrange(1, len(toks))]


def gen_scope_ops(tier, rng, boost=1, count=None, truncated=0.08):
    ops = []
    n = count or ((700 if tier == "quick" else 12000) * boost)
    for i in range(n):
        src = "mem" if i % 2 == 0 else "stream"
        mis = rng.choice(["skip", "skip", "throw"])
        ctx = {"stop": False}
        toks = []
        reqs = []
        if src == "stream" and rng.random() < 0.6:
            # shift the document across the 256-byte cache boundary with a leading string value
            ln = rng.choice([200, 230, 240, 245, 250, 252, 253, 254, 255, 256, 257, 260, 300, 500, 510])
            toks.append("s" + hexb([0x41 + (j % 26) for j in range(ln)]))
            reqs.append("n=s")
        shape = rng.random()
        root = rand_object(rng, rng.choice([0, 1, 2, 3])) if shape < 0.75 else None
        if root is not None:
            toks += root.toks
            if rng.random() < 0.05:
                reqs.append("B")                         # not a bin: F, the object is still the next value
            reqs += ["o"] + object_reqs(rng, root, ctx) + ["c"]
        elif shape < 0.83:
            # a `bin` (or, rarely, another scalar) at the root, opened as a binary scope
            if rng.random() < 0.85:
                b = rand_bin(rng)
                toks += b.toks
                reqs += (["B"] + bin_reqs(rng, b, ctx) + ["c"]) if rng.random() < 0.85 else [rng.choice(["n=s", "a", "n=x"])]
            else:
                t, ty = rand_scalar(rng)
                toks.append(t)
                reqs += ["B", "n=" + other_ty(rng, ty)]
        else:
            arr = rand_value(rng, 2)
            while arr.kind != "arr":
                arr = rand_value(rng, 2)
            toks += arr.toks
            reqs += ["a"] + array_reqs(rng, arr, ctx) + ["c"]
        sentinel = rng.choice([7, 123456, -5])
        toks.append("i%d" % sentinel)
        if not ctx["stop"] or rng.random() < 0.5:
            reqs.append("n=i")
        if rng.random() < truncated:
            toks = truncate_tokens(rng, toks)
            # mostly without the request for the sentinel behind the root value: a destructor's skip loop is then often the
            # ONLY place that notices the missing part (the error must come from Finalize(), after the last `C`)
            if reqs and reqs[-1] == "n=i" and rng.random() < 0.8:
                reqs.pop()
        ops.append("mp.scope %s %s %s %s" % (src, mis, ",".join(toks), ";".join(reqs)))
    return ops


def gen_tupobj_ops(tier, rng, boost=1):
    """mp.tuple … obj: struct { std::tuple<int64,string,int64,bool> t; int64 z; } loaded from {"t": <array or something else>, "z": …}
    in both key orders: arrays shorter and LONGER than the tuple (under Skip the tuple stops inside the array and the
    array scope's destructor has to skip the rest), elements of another kind at every subset of positions, nested
    containers as surplus elements, "t" absent / nil / not an array, "z" absent / of another kind, extra members"""
    def sc(kind):
        if kind == "i": return "i" + str(rng.choice([0, 1, 7, -3, 200, 70000, -40000, 2 ** 40]))
        if kind == "s": return "s" + (bytes(rng.choice(b"abcXYZ") for _ in range(rng.randrange(0, 5))).hex() or "-")
        if kind == "t": return rng.choice(["t", "f"])
        if kind == "n": return "n"
        if kind == "d": return "d" + rng.choice(["3ff8000000000000", "4045000000000000"])
        if kind == "b": return "b" + bytes([1, 2]).hex()
        if kind == "A": return "a2,i1," + sc(rng.choice("is"))            # surplus element that is itself an array
        if kind == "M": return "m1,s6b,a1,i5"                             # … or an object
    want = ["i", "s", "i", "t"]
    other = {"i": ["s", "n", "d", "b"], "s": ["i", "t", "n", "d"], "t": ["s", "n", "d"]}
    ops = []
    n = (200 if tier == "quick" else 4000) * boost
    for i in range(n):
        mask = i % 16 if i < 32 else (0 if rng.random() < 0.5 else rng.randrange(16))
        length = rng.choice([4, 4, 0, 1, 2, 3, 5, 6, 9])
        toks = []
        for k in range(length):
            if k < 4:
                toks.append(sc(rng.choice(other[want[k]])) if (mask >> k) & 1 else sc(want[k]))
            else:
                toks.append(sc(rng.choice("isnAM")))
        r = rng.random()
        tval = ",".join([f"a{length}"] + toks) if r < 0.88 else rng.choice(["n", "i3", "s41", "m1,i1,i2", None])
        zr = rng.random()
        zval = "i" + str(rng.choice([5, -9, 123456789012, 0])) if zr < 0.85 else rng.choice(["s7a", "n", None])
        members = []
        if tval is not None: members.append("s74," + tval)
        if zval is not None: members.append("s7a," + zval)
        if rng.random() < 0.3: members.insert(rng.randrange(0, len(members) + 1), "s71,a2,i1,i2")
        if rng.random() < 0.25: members.reverse()
        doc = ",".join([f"m{len(members)}"] + members + ["i77"])
        for src in ("mem", "stream"):
            ops.append(f"mp.tuple {src} skip {doc} obj")
        if i % 3 == 0:
            ops.append(f"mp.tuple {rng.choice(('mem', 'stream'))} throw {doc} obj")
    for d in ("i3", "n", "s41", "a1,i1", "m0", "t"):
        for src in ("mem", "stream"):
            for mis in ("skip", "throw"):
                ops.append(f"mp.tuple {src} {mis} {d} obj")
    return ops
