"""C14 — ISO-8601 text of times and durations is calendar-correct and parses back exactly."""
from .chronogen import *

THEOREMS = [
    "BSVerif.Props.C14.calendar_algorithm_correct",
    "BSVerif.Props.C14.civil_from_days_correct",
    "BSVerif.Props.C14.civil_from_days_total",
    "BSVerif.Props.C14.days_from_civil_correct",
    "BSVerif.Props.C14.days_from_civil_inverse",
    "BSVerif.Props.C14.daysInMonth_table",
    "BSVerif.Props.C14.utcBuf_sufficient",
    "BSVerif.Props.C14.fraction_scaling_exact",
    "BSVerif.Props.C14.print_tp_correct",
    "BSVerif.Props.C14.print_parse_fields_roundtrip",
    "BSVerif.Props.C14.print_tp_no_ub_witnesses",
    "BSVerif.Props.C14.print_tp_total_refuted",
]
RULE = ("time points: boundary dates (leap days, century/400-year boundaries, epoch, years 0/-1/9999/10000/-999/-1000, type limits) x "
        "offsets inside the day x 13 printable (precision, representation) pairs, min/max/first-midnight/second neighbourhoods (+-2), "
        "random 64-bit counts, blocks of 366 consecutive midnights (thorough: every day of years -10000..+20000 and every second of "
        "selected days); each as print -> parse round trip on the real code; durations and CBinTimestamp round trips over all "
        "instantiable pairs; time_t and tm; non-trivial = count != 0; distinct = distinct op lines")
EXHAUSTIVE = {"quick": False, "thorough": True}
ASSUMPTIONS = ["LP64 platform: time_t = long = int64_t, int = int32_t, intmax_t = int64_t (what the model's common_type tables encode)",
               "time_point printing is judged for the representations of the property's quantifier (int64 all precisions, int32 for "
               "s/min/h/d, int8 for h/d); unsigned time points cannot be printed at all (the library does not compile there)",
               "the narrowing conversions static_cast<intN_t> are modular (g++; implementation-defined before C++20)"]
TRUSTED = ["libstdc++ <chrono>/<charconv> semantics as transliterated in BSVerif/Chrono/Model.lean (duration_cast, floor, round, from_chars)"]
OP_TIMEOUT = 20.0


def nontrivial(op, impl):
    t = op.split(" ")
    return impl.startswith("ok") and not all(x in ("0", "-") for x in t[2:])


def tp_counts(rng, prec, rep, tier, boost):
    lo, hi = rng_of(rep)
    K = per_day(prec)
    num, den = PRECS[prec]
    out = set(neighbourhood(rep, prec))
    offs = [0, 1, 2, K - 1, K - 2, K // 2]
    for (y, m, d) in boundary_dates():
        base = days_from_civil(y, m, d) * K
        if base > hi + K or base + K < lo:
            continue
        extra = [rng.randrange(K) for _ in range(2 if tier == "quick" else 12)]
        for o in offs + extra + [-1, -2]:
            c = base + o
            if lo <= c <= hi:
                out.add(c)
    for _ in range((150 if tier == "quick" else 4000) * boost):
        out.add(rand_count(rng, rep))
    return sorted(out)


def dur_counts(rng, prec, rep, tier, boost):
    lo, hi = rng_of(rep)
    out = set(neighbourhood(rep, prec))
    num, den = PRECS[prec]
    for unit_s in (1, 60, 3600, 86400):
        if unit_s * den % num == 0:
            u = unit_s * den // num
            for k in (1, 2, 9, 10, 23, 24, 59, 60, 99, 100, 365, 1000):
                for dlt in (-1, 0, 1):
                    for sg in (1, -1):
                        c = sg * (k * u + dlt)
                        if lo <= c <= hi:
                            out.add(c)
    if den > 1:
        for k in (1, 5, 10, 50, 100, 123, 500, 999, 1000, 123456, 500000, 999999, 123456789, 999999999):
            for sg in (1, -1):
                if k < den and lo <= sg * k <= hi:
                    out.add(sg * k)
                if lo <= sg * (den + k) <= hi and k < den:
                    out.add(sg * (den + k))
    for _ in range((150 if tier == "quick" else 4000) * boost):
        out.add(rand_count(rng, rep))
    return sorted(out)


def gen(tier, rng, boost=1):
    ops = []
    # time points: print -> parse round trip on the real code
    for (prec, rep) in PRINT_TP_TYPES:
        for c in tp_counts(rng, prec, rep, tier, boost):
            ops.append(f"iso.rt_tp {prec}:{rep} {c}")
    # blocks of consecutive midnights
    years = BOUNDARY_YEARS if tier == "quick" else range(-10000, 20001)
    for i, y in enumerate(years):
        if not -10 ** 7 < y < 10 ** 7:
            continue
        first = days_from_civil(y, 1, 1)
        prec, rep = ("d", "i64") if tier == "thorough" else PRINT_TP_TYPES[i % len(PRINT_TP_TYPES)]
        K = per_day(prec)
        if fits(rep, first * K) and fits(rep, (first + 365) * K):
            ops.append(f"iso.print_days {prec}:{rep} {first} 366")
        if tier == "thorough" and y % 7 == 0:
            for (p2, r2) in (("s", "i64"), ("ms", "i64"), ("d", "i32")):
                K = per_day(p2)
                if fits(r2, first * K) and fits(r2, (first + 365) * K):
                    ops.append(f"iso.print_days {p2}:{r2} {first} 366")
    if tier == "thorough":
        # every second of selected days
        for (y, m, d) in ((2000, 2, 29), (1900, 2, 28), (1969, 12, 31), (1970, 1, 1), (0, 1, 1), (-1, 12, 31), (9999, 12, 31), (10000, 1, 1), (2400, 2, 29), (1677, 9, 22)):
            base = days_from_civil(y, m, d) * 86400
            for s in range(86400):
                ops.append(f"iso.rt_tp s:i64 {base + s}")
    # time_t and tm
    for c in tp_counts(rng, "s", "i64", "quick", 1)[:: (7 if tier == "quick" else 1)]:
        ops.append(f"iso.print_raw {c}")
    for (y, m, d) in boundary_dates():
        if -2 ** 31 <= y < 2 ** 31:
            ops.append(f"iso.print_tm {y} {m} {d} {rng.randrange(24)} {rng.randrange(60)} {rng.randrange(60)}")
    # durations
    for (prec, rep) in PRINT_DUR_TYPES:
        for c in dur_counts(rng, prec, rep, tier, boost):
            ops.append(f"iso.rt_dur {prec}:{rep} {c}")
    # CBinTimestamp
    for (prec, rep) in ALL_TYPES:
        cs = dur_counts(rng, prec, rep, tier, boost)
        for c in cs:
            ops.append(f"bin.rt_ts {prec}:{rep} {c}")
        for c in cs[:: 3]:
            ops.append(f"bin.rt_dur {prec}:{rep} {c}")
        # arbitrary timestamps into the type
        lo, hi = rng_of(rep)
        num, den = PRECS[prec]
        secs = {0, 1, -1, lo * num // den, hi * num // den, -2 ** 63, 2 ** 63 - 1}
        for s in list(secs):
            for dlt in (-1, 1, num, -num):
                secs.add(s + dlt)
        # negative seconds that are congruent to -2^64 modulo the period (an unsigned quotient is exact there)
        for k in range(4):
            secs.add(-(2 ** 64 % max(num, 1)) - k * num)
            secs.add(-(2 ** 64 % 60) - k * 60)
        secs |= {rng.randint(-2 ** 63, 2 ** 63 - 1) for _ in range(10)} | {rng.randint(lo * num // den, hi * num // den) for _ in range(20)}
        for s in sorted(secs):
            if not -2 ** 63 <= s < 2 ** 63:
                continue
            for ns in (0, 1, 499999999, 500000000, 500000001, 999999999, rng.randrange(10 ** 9)):
                op = "bin.ts_back" if rng.random() < 0.5 else "bin.dur_back"
                ops.append(f"{op} {prec}:{rep} {s} {ns}")
    # "both survive the MsgPack binary timestamp form unchanged": time points and durations at every layout threshold of the Timestamp
    # extension (2^32, 2^34 +-1, negative, sub-second) saved and loaded through the real MsgPack archive, memory and stream
    for _ in range((120 if tier == "quick" else 4000) * boost):
        for target in ("chrono", "vchrono"):
            for src in ("mem", "stream"):
                ops.append(f"rt.any mp {src} {target} {rng.randrange(1, 2 ** 31)}")
    return ops
