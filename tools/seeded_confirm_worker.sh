#!/bin/sh
# $1 = worker id, $2 = id offset, rest = "PROP:letter" items
W=$1; OFF=$2; shift; shift
export MUTCHECK_DIR=/tmp/mutcheck_w$W
cd /verif
for item in "$@"; do
  P=${item%%:*}; L=${item##*:}
  for i in 1 2 3; do
    python3 tools/seeded_eval.py --confirm-only $P-m$((i+OFF)) /tmp/mut_$L/out/m$i $P 2>&1 | tr '\n' ' ' | cut -c1-300; echo
  done
done
