"""
Inventory translator (C19/C20): regenerates lean/BSVerif/Generated/InventoryConsts.lean from the clang AST
of the current tree.

  dtors   : every user-provided destructor (one with a body) of the library, with the list of callees in its
            body through which an exception MAY ESCAPE (transitively: a library function may throw if it contains
            a `throw`, or calls something that may throw; a callee declared noexcept cannot; unknown non-library
            callees are assumed to throw unless whitelisted). A call inside `try { … } catch (...) { … }` does not
            escape: the catch-all handler takes every exception of the try block. The HANDLERS of a try statement are
            analysed as ordinary code of the enclosing context, so a `throw;` / `throw x;` or a throwing call
            inside a handler (a catch-all that rethrows) counts again; a try block WITHOUT a catch-all handler
            protects nothing.
  dtorsDeferred : the same destructors with the callees that may throw INSIDE such a guarded try block (what the
            destructor catches and defers): removing the try/catch moves them back into `dtors`.
  statics : every object of static storage duration declared by the library (namespace scope, static data
            members, function-local statics), with constness and the functions that write to it after
            initialisation

Route: one translation unit that includes every public header plus the .cpp files is dumped with
`clang++-14 -Xclang -ast-dump=json -Xclang -ast-dump-filter=BitSerializer` (about 60 MB, 2 s) and walked here.
"""
import json, os, subprocess, sys, re

HEADERS = ["bitserializer/bit_serializer.h", "bitserializer/convert.h", "bitserializer/msgpack_archive.h",
           "bitserializer/csv_archive.h", "bitserializer/rapidjson_archive.h", "bitserializer/pugixml_archive.h"]
STD_HEADERS_DIR = "bitserializer/types/std"
SRC = ["src/common/binary_stream_reader.cpp", "src/msgpack/msgpack_archive.cpp", "src/msgpack/msgpack_readers.cpp",
       "src/msgpack/msgpack_writers.cpp", "src/csv/csv_archive.cpp", "src/csv/csv_readers.cpp", "src/csv/csv_writers.cpp"]

# non-library callees that cannot throw although they are not declared noexcept
NOTHROW_EXTERNAL = {"operator delete", "operator delete[]", "move", "forward", "addressof", "get", "memcpy", "memmove",
                    "size", "empty", "data", "begin", "end", "cbegin", "cend", "reset", "has_value", "operator bool",
                    "operator*", "operator->", "operator==", "operator!=", "operator<", "operator++", "operator--",
                    "eof", "fail", "good", "c_str", "front", "back"}
FUNC_KINDS = {"FunctionDecl", "CXXMethodDecl", "CXXDestructorDecl", "CXXConstructorDecl", "CXXConversionDecl"}
CALL_KINDS = {"CallExpr", "CXXMemberCallExpr", "CXXOperatorCallExpr"}


def dump_ast(repo, workdir):
    os.makedirs(workdir, exist_ok=True)
    tu = os.path.join(workdir, "tu_all.cpp")
    lines = []
    for h in HEADERS:
        if os.path.exists(os.path.join(repo, "include", h)):
            lines.append(f'#include "{h}"')
    stdd = os.path.join(repo, "include", STD_HEADERS_DIR)
    if os.path.isdir(stdd):
        for f in sorted(os.listdir(stdd)):
            if f.endswith(".h") and f not in ("filesystem.h",):
                lines.append(f'#include "{STD_HEADERS_DIR}/{f}"')
    for s in SRC:
        p = os.path.join(repo, s)
        if os.path.exists(p):
            lines.append(f'#include "{p}"')
    open(tu, "w").write("\n".join(lines) + "\n")
    out = os.path.join(workdir, "ast.json")
    with open(out, "w") as fo:
        p = subprocess.run(["clang++-14", "-std=gnu++17", "-fsyntax-only", f"-I{repo}/include", f"-I{repo}/src",
                            "-Xclang", "-ast-dump=json", "-Xclang", "-ast-dump-filter=BitSerializer", tu],
                           stdout=fo, stderr=subprocess.PIPE, text=True)
    if p.returncode != 0 and os.path.getsize(out) < 1000:
        raise RuntimeError("clang AST dump failed: " + p.stderr[-500:])
    txt = open(out).read()
    os.unlink(out)
    dec = json.JSONDecoder()
    i, objs = 0, []
    n = len(txt)
    while i < n:
        while i < n and txt[i] in " \n\r\t":
            i += 1
        if i >= n:
            break
        o, i = dec.raw_decode(txt, i)
        objs.append(o)
    return objs


class Inv:
    def __init__(self, objs, repo):
        self.repo = repo
        self.funcs = {}        # simple name -> list of function nodes with body
        self.func_by_id = {}
        self.dtors = []        # (qualified name, node)
        self.statics = {}      # id -> info
        self.cur_file = None
        for o in objs:
            self._index(o, [], None)

    def _loc_file(self, n):
        loc = n.get("loc") or {}
        f = loc.get("file") or (loc.get("expansionLoc") or {}).get("file") or (loc.get("spellingLoc") or {}).get("file")
        if f:
            self.cur_file = f
        return self.cur_file

    def _index(self, n, scope, func):
        k = n.get("kind")
        name = n.get("name")
        self._loc_file(n)
        new_scope = scope
        if k in ("NamespaceDecl", "CXXRecordDecl", "ClassTemplateDecl", "ClassTemplateSpecializationDecl") and name:
            if not (scope and scope[-1] == name):
                new_scope = scope + [name]
        if k in FUNC_KINDS:
            body = next((c for c in n.get("inner", []) if c.get("kind") == "CompoundStmt"), None)
            n["_scope"] = "::".join(scope)
            if n.get("id"):
                self.func_by_id[n["id"]] = n
            if body is not None:
                self.funcs.setdefault(name, []).append(n)
                if k == "CXXDestructorDecl" and not n.get("isImplicit"):
                    cls = re.sub(r"<.*", "", (name or "").lstrip("~"))
                    self.dtors.append(("::".join([s for s in scope if s != cls] + [cls, "~" + cls]), n))
            func = n
        if k == "VarDecl":
            sc = n.get("storageClass")
            in_func = func is not None
            is_static = sc == "static" or (not in_func and sc != "extern")
            if is_static and (in_func is False or sc == "static") and not n.get("isImplicit"):
                qt = (n.get("type") or {}).get("qualType", "")
                info = {"name": "::".join(scope + [name or "?"]) if not in_func else
                        (func.get("_scope", "") + "::" + (func.get("name") or "?") + "()::" + (name or "?")),
                        "type": qt, "constexpr": bool(n.get("constexpr")),
                        "const": self._top_const(qt), "scope": "function" if in_func else ("class" if any(True for _ in []) else "namespace"),
                        "file": self.cur_file or "", "writers": set()}
                if not in_func and scope and scope[-1] and k == "VarDecl" and sc == "static" and n.get("inline") is not None:
                    info["scope"] = "class"
                self.statics[n["id"]] = info
        for c in n.get("inner", []) or []:
            self._index(c, new_scope, func)

    @staticmethod
    def _top_const(qt):
        q = qt.strip()
        if q.endswith("const"):
            return True
        if "*" in q or "&" in q:
            return q.rstrip().endswith("const")
        return q.startswith("const ") or " const" in q

    # ---- may-throw analysis -------------------------------------------------------------------------
    def callee_of(self, call):
        """(name, noexcept?, referenced id) of a call node"""
        inner = call.get("inner", [])
        if not inner:
            return None, False, None
        def find(n, depth=0):
            k = n.get("kind")
            if k in ("DeclRefExpr", "MemberExpr"):
                rd = n.get("referencedDecl") or {}
                nm = rd.get("name") or n.get("name")
                qt = ((rd.get("type") or n.get("type") or {}).get("qualType")) or ""
                rid = rd.get("id") or n.get("referencedMemberDecl")
                if k == "MemberExpr" and not nm:
                    nm = n.get("name")
                return nm, ("noexcept" in qt), rid
            if k in ("CXXDependentScopeMemberExpr", "UnresolvedMemberExpr", "UnresolvedLookupExpr", "DependentScopeDeclRefExpr"):
                return n.get("member") or n.get("name"), False, None
            if depth < 4:
                for c in n.get("inner", []) or []:
                    r = find(c, depth + 1)
                    if r[0]:
                        return r
            return None, False, None
        return find(inner[0])

    def may_throw(self, fn, stack=()):
        """list of reasons (callee names / 'throw') why an exception may leave the function body;
        fn['_guarded'] = the reasons that are confined by a try block with a non-rethrowing catch-all"""
        key = id(fn)
        if key in stack:
            return []
        if "_mt" in fn:
            return fn["_mt"]
        reasons = []
        guarded = []
        body = next((c for c in fn.get("inner", []) if c.get("kind") == "CompoundStmt"), None)

        def is_catch_all(c):
            # `catch (...)`: a CXXCatchStmt without exception declaration (clang dumps the declaration as a VarDecl child)
            return c.get("kind") == "CXXCatchStmt" and not any(g.get("kind") == "VarDecl" for g in c.get("inner", []) or [])

        def walk(n, in_catch_all):
            k = n.get("kind")
            if k == "CXXTryStmt":
                inner = n.get("inner", [])
                catch_all = any(is_catch_all(c) for c in inner[1:])
                if inner:
                    walk(inner[0], in_catch_all or catch_all)       # the try block
                for c in inner[1:]:
                    walk(c, in_catch_all)                           # handlers: code of the enclosing context (rethrow escapes)
                return
            if k in ("LambdaExpr",):
                return   # a lambda body only runs when called
            if k == "CXXThrowExpr":
                (guarded if in_catch_all else reasons).append("throw")
            if k in CALL_KINDS:
                nm, noexc, rid = self.callee_of(n)
                if nm and not noexc:
                    cands = []
                    if rid and rid in self.func_by_id:
                        cands = [self.func_by_id[rid]]
                        if not any(c.get("kind") == "CompoundStmt" for c in cands[0].get("inner", []) or []):
                            cands = self.funcs.get(nm, [])
                    else:
                        cands = self.funcs.get(nm, [])
                    if cands:
                        for c in cands:
                            if "noexcept" in ((c.get("type") or {}).get("qualType") or ""):
                                continue
                            if self.may_throw(c, stack + (key,)):
                                (guarded if in_catch_all else reasons).append(nm)
                                break
                    elif nm not in NOTHROW_EXTERNAL:
                        (guarded if in_catch_all else reasons).append(nm)
            for c in n.get("inner", []) or []:
                walk(c, in_catch_all)

        if body is not None:
            walk(body, False)
        out = sorted(set(reasons))
        if not stack:
            fn["_mt"] = out
            fn["_guarded"] = sorted(set(guarded))
        return out

    # ---- writers of statics ---------------------------------------------------------------------------
    def find_writers(self, objs):
        ids = set(self.statics)

        def refs(n):
            if n.get("kind") == "DeclRefExpr":
                rid = (n.get("referencedDecl") or {}).get("id")
                if rid in ids:
                    yield rid
            for c in n.get("inner", []) or []:
                yield from refs(c)

        def lvalue_refs(n):
            """ids referenced in `n` that are not read through an lvalue-to-rvalue conversion"""
            k = n.get("kind")
            if k == "ImplicitCastExpr" and n.get("castKind") == "LValueToRValue":
                return
            if k == "DeclRefExpr":
                rid = (n.get("referencedDecl") or {}).get("id")
                if rid in ids:
                    yield rid
                return
            for c in n.get("inner", []) or []:
                yield from lvalue_refs(c)

        def walk(n, fname):
            k = n.get("kind")
            if k in FUNC_KINDS:
                fname = (n.get("_scope", "") + "::" + (n.get("name") or "?")).strip(":")
            if k in ("BinaryOperator", "CompoundAssignOperator") and (n.get("opcode", "").endswith("=") and n.get("opcode") not in ("==", "!=", "<=", ">=")):
                inner = n.get("inner", [])
                if inner:
                    for rid in refs(inner[0]):
                        self.statics[rid]["writers"].add(fname or "?")
            if k == "UnaryOperator" and n.get("opcode") in ("++", "--"):
                for rid in refs(n):
                    self.statics[rid]["writers"].add(fname or "?")
            if k in CALL_KINDS or k == "CXXConstructExpr":
                for a in (n.get("inner", []) or [])[1:] if k != "CXXConstructExpr" else (n.get("inner", []) or []):
                    for rid in lvalue_refs(a):
                        if not self.statics[rid]["const"]:
                            self.statics[rid]["writers"].add((fname or "?") + "(arg)")
                if k == "CXXMemberCallExpr":
                    # non-const member function called on the static object itself
                    callee = (n.get("inner") or [None])[0]
                    if callee and callee.get("kind") == "MemberExpr":
                        for rid in lvalue_refs(callee):
                            if not self.statics[rid]["const"]:
                                self.statics[rid]["writers"].add((fname or "?") + "(method)")
            for c in n.get("inner", []) or []:
                walk(c, fname)

        for o in objs:
            walk(o, None)


def compiled_mutable(objdir):
    """demangled names of library symbols that the compiled objects place in writable sections
    (.bss/.data/.tbss/.tdata), template arguments kept, duplicates merged"""
    names = set()
    if not objdir or not os.path.isdir(objdir):
        return None
    for f in sorted(os.listdir(objdir)):
        if not f.endswith(".o"):
            continue
        p = subprocess.run(["objdump", "-t", "-C", os.path.join(objdir, f)], stdout=subprocess.PIPE, stderr=subprocess.DEVNULL, text=True)
        for line in p.stdout.split("\n"):
            m = re.match(r"^[0-9a-f]+ (.{7}) (\S+)\s+[0-9a-f]+\s+(.*)$", line)
            if not m:
                continue
            flags, sec, name = m.group(1), m.group(2), m.group(3).strip()
            if not re.match(r"^\.(bss|data|tbss|tdata)", sec) or "rel.ro" in sec:
                continue
            if "O" not in flags:            # objects only
                continue
            if "BitSerializer" not in name:
                continue
            # library symbols only: a harness function that merely has a library type among its template arguments
            # (`(anonymous namespace)::run<BitSerializer::Csv::CsvArchive>(…)::pieces`) is not one
            bare = name
            while True:
                nb = re.sub(r"<[^<>]*>", "", bare)
                if nb == bare:
                    break
                bare = nb
            if not bare.startswith("BitSerializer::"):
                continue
            if name.startswith(("guard variable", "vtable", "typeinfo", "VTT", "construction vtable", ".hidden")) or "__asan" in name \
                    or "__odr" in name or "DW.ref" in name:
                continue
            # strip the argument list of the enclosing function for function-local statics
            # (template arguments may contain parentheses — `Scope<(BitSerializer::SerializeMode)0>` — so they are removed first)
            full = re.sub(r"\[abi:[^\]]*\]", "", name)
            names.add(re.sub(r"\(.*\)::", "()::", full) if "<" not in full else full)
    return sorted(names)


def lean_str(s):
    return '"' + s.replace("\\", "\\\\").replace('"', '\\"') + '"'


def generate(repo, outdir, workdir, objdir=None):
    objs = dump_ast(repo, workdir)
    inv = Inv(objs, repo)
    inv.find_writers(objs)
    # destructors: merge duplicates (template pattern + instantiations) by name, union of reasons
    d = {}
    g = {}
    for name, node in inv.dtors:
        d.setdefault(name, set()).update(inv.may_throw(node))
        g.setdefault(name, set()).update(node.get("_guarded", []))
    dtors = sorted(d.items())
    deferred = sorted(g.items())
    stat = {}
    for info in inv.statics.values():
        f = info["file"]
        if "/include/bitserializer" not in f and "/src/" not in f:
            continue
        if "testing_tools" in f:
            continue
        nm = re.sub(r"<[^>]*>", "", info["name"])
        kind = "constexpr" if info["constexpr"] else ("const" if info["const"] else "mutable")
        e = stat.setdefault(nm, {"kind": kind, "scope": info["scope"], "writers": set()})
        e["writers"].update(re.sub(r"<[^>]*>", "", w) for w in info["writers"])
    lines = ["-- GENERATED by tools/translate_inv.py from the clang AST of the current /repo tree. DO NOT EDIT.",
             "namespace BSVerif.Generated.Inventory", "",
             "/-- (user-provided destructor, callees in its body through which an exception may leave the destructor) -/",
             "def dtors : List (String × List String) := ["]
    lines.append(",\n".join(f"  ({lean_str(n)}, [{', '.join(lean_str(r) for r in sorted(rs))}])" for n, rs in dtors))
    lines += ["]", "",
              "/-- (user-provided destructor, callees that may throw inside a try block with a catch-all handler: caught in the destructor) -/",
              "def dtorsDeferred : List (String × List String) := ["]
    lines.append(",\n".join(f"  ({lean_str(n)}, [{', '.join(lean_str(r) for r in sorted(rs))}])" for n, rs in deferred))
    lines += ["]", "",
              "/-- (object of static storage duration, constexpr|const|mutable, namespace|class|function, functions writing to it after initialisation) -/",
              "def statics : List (String × String × String × List String) := ["]
    lines.append(",\n".join(f"  ({lean_str(n)}, {lean_str(e['kind'])}, {lean_str(e['scope'])}, [{', '.join(lean_str(w) for w in sorted(e['writers']))}])"
                            for n, e in sorted(stat.items())))
    lines += ["]", ""]
    cm = compiled_mutable(objdir)
    if cm is None:
        # no compiled objects available (first setup run before the harness exists): keep the previous list
        target0 = os.path.join(outdir, "InventoryConsts.lean")
        prev = open(target0).read() if os.path.exists(target0) else ""
        m = re.search(r"def compiledMutable : List String := \[(.*?)\n\]", prev, re.S)
        body = m.group(1) if m else ""
    else:
        def strip_targs(n):
            prev = None
            while prev != n:
                prev = n
                n = re.sub(r"<[^<>]*>", "", n)
            return n
        def short(n):
            return re.sub(r"\(.*\)::", "()::", strip_targs(n))
        body = "\n" + ",\n".join(f"  ({lean_str(short(n))}, {lean_str(n)})" for n in cm)
    lines += ["/-- library symbols that the compiled objects place in writable sections (objdump of the harness build):",
              "    (name with template arguments stripped, full demangled name) -/",
              "def compiledMutable : List (String × String) := [" + body, "]", "", "end BSVerif.Generated.Inventory", ""]
    text = "\n".join(lines)
    target = os.path.join(outdir, "InventoryConsts.lean")
    old = open(target).read() if os.path.exists(target) else None
    if old != text:
        open(target, "w").write(text)
    return old is not None and old != text


if __name__ == "__main__":
    repo = sys.argv[1] if len(sys.argv) > 1 else "/repo"
    generate(repo, sys.argv[2] if len(sys.argv) > 2 else "/tmp/scratch/gen", "/tmp/scratch/invwork")
    print(open(os.path.join(sys.argv[2] if len(sys.argv) > 2 else "/tmp/scratch/gen", "InventoryConsts.lean")).read())
