#!/usr/bin/env python3
"""
seeded_eval.py <id> <dir with patch.diff + demo.*> <PROP> [<PROP>…]

Confirms a seeded breaking change and records which checks catch it:
  1. scratch worktree (/tmp/mutcheck/repo, build in /tmp/mutcheck/build): patch applies, the pinned test targets
     build and pass with it, the demonstration FAILS with it and PASSES without it;
  2. the patch is applied to /repo, the listed checks are run (quick tier), /repo is reverted straight afterwards;
  3. seeded/<id>/{patch.diff, demo.*, README.md, meta.json} is written.
"""
import sys, os, subprocess, json, shutil, re, glob, time

VERIF = os.path.dirname(os.path.dirname(os.path.abspath(__file__)))
REPO = "/repo"
SCR = os.environ.get("MUTCHECK_DIR", "/tmp/mutcheck")


def sh(cmd, cwd=None, timeout=3600, env=None):
    p = subprocess.run(cmd, cwd=cwd, shell=isinstance(cmd, str), stdout=subprocess.PIPE, stderr=subprocess.STDOUT, text=True, errors="replace",
                       timeout=timeout, env=env)
    return p.returncode, p.stdout


def ensure_scratch():
    os.makedirs(SCR, exist_ok=True)
    wt = os.path.join(SCR, "repo")
    if not os.path.isdir(wt):
        sh(["git", "-C", REPO, "worktree", "add", "-q", "--detach", wt, "HEAD"])
    else:
        head = sh(["git", "-C", REPO, "rev-parse", "HEAD"])[1].strip()
        sh(["git", "-C", wt, "checkout", "-q", "--detach", head])
        sh(["git", "-C", wt, "checkout", "--", "."])
    b = os.path.join(SCR, "build")
    if not os.path.isdir(b):
        rc, out = sh(["cmake", "-G", "Ninja", "-S", wt, "-B", b, "-DBUILD_TESTS=ON", "-DCMAKE_BUILD_TYPE=RelWithDebInfo"])
        assert rc == 0, out[-2000:]
    return wt, b


def build_demo(src, wt, exe):
    if src.endswith(".cpp"):
        head = open(src, errors="replace").read(3000)
        pre = head.split("#include")[0]
        gpp = [l for l in pre.split("\n") if "g++" in l]
        # the demonstration names its own build command in the header comment: ThreadSanitizer when the FIRST command asks for it
        extra = "-g -fsanitize=thread " if ("#error" in head and "-fsanitize=thread" in pre) or (gpp and "-fsanitize=thread" in gpp[0]) else ""
        cmd = (f"g++ -std=c++17 -O1 {extra}-I{wt}/include -I{wt}/src {src} {wt}/src/common/*.cpp {wt}/src/csv/*.cpp {wt}/src/msgpack/*.cpp "
               f"-lpugixml -lpthread -o {exe}")
        return sh(cmd, timeout=1800)
    return 0, ""


def run_demo(src, exe, wt):
    if src.endswith(".cpp"):
        return sh([exe], timeout=600)
    if src.endswith(".py"):
        return sh(["python3", src, wt], timeout=600)
    return sh(["sh", src, wt], timeout=600)


def checks_only(sid, props):
    """re-run checks against an already confirmed seeded change (seeded/<id>/patch.diff); keeps the confirmation data"""
    outdir = os.path.join(VERIF, "seeded", sid)
    meta = json.load(open(os.path.join(outdir, "meta.json")))
    patch = os.path.join(outdir, "patch.diff")
    results = run_checks(patch, props)
    meta.setdefault("checks", {}).update(results)
    meta["caught_by"] = [p for p, r in meta["checks"].items() if r["exit"] == 1 and r["violation"]]
    meta["rechecked"] = time.strftime("%Y-%m-%dT%H:%M:%SZ", time.gmtime())
    json.dump(meta, open(os.path.join(outdir, "meta.json"), "w"), indent=1)
    print(json.dumps({"id": sid, "caught_by": meta["caught_by"], "checks": {p: (r["exit"], (r["violation"] or "")[:120]) for p, r in results.items()}}))


def run_checks(patch, props):
    results = {}
    rc, out = sh(["git", "-C", REPO, "apply", patch])
    assert rc == 0, "patch does not apply to /repo: " + out
    try:
        for p in props:
            t0 = time.time()
            rc, out = sh(["python3", os.path.join(VERIF, "tools", "check.py"), p, "--tier", "quick"], cwd=VERIF, timeout=7200,
                         env=dict(os.environ, VERIF_EVIDENCE_DIR=os.path.join(SCR, "evidence")))
            viol = [l for l in out.split("\n") if l.startswith("VIOLATION")]
            replay = None
            if viol:
                mm = re.search(r"replay=(\S+)", viol[0])
                if mm and os.path.exists(mm.group(1)):
                    rp = json.load(open(mm.group(1)))
                    replay = {k: rp.get(k) for k in ("kind", "op", "impl", "model", "verdict", "broken_theorems") if k in rp}
                    if isinstance(replay.get("op"), str):
                        replay["op"] = replay["op"][:400]
            results[p] = {"exit": rc, "violation": viol[0] if viol else None, "replay": replay, "wall_s": round(time.time() - t0, 1),
                          "summary": out.strip().split("\n")[-1][:300]}
    finally:
        sh(["git", "-C", REPO, "checkout", "--", "."])
    return results


def main():
    if sys.argv[1] == "--checks-only":
        return checks_only(sys.argv[2], sys.argv[3:])
    confirm_only = sys.argv[1] == "--confirm-only"       # confirmation in the scratch worktree only (can run in parallel with MUTCHECK_DIR set)
    if confirm_only:
        sys.argv.pop(1)
    sid, d = sys.argv[1], sys.argv[2]
    props = sys.argv[3:]
    patch = os.path.join(d, "patch.diff")
    demos = [f for f in glob.glob(os.path.join(d, "demo.*")) if not f.endswith((".o", ".out"))]
    demo = demos[0]
    meta = {"id": sid, "breaks": props, "source_dir": d, "ran": [], "time": time.strftime("%Y-%m-%dT%H:%M:%SZ", time.gmtime())}
    wt, b = ensure_scratch()
    # demo on the unchanged tree
    exe = os.path.join(SCR, "demo_bin")
    rc, out = build_demo(demo, wt, exe)
    assert rc == 0, "demo does not build on the unchanged tree: " + out[-1500:]
    rc0, out0 = run_demo(demo, exe, wt)
    meta["demo_unchanged"] = {"exit": rc0, "tail": out0[-300:]}
    # apply
    rc, out = sh(["git", "-C", wt, "apply", patch])
    assert rc == 0, "patch does not apply: " + out
    rc, out = sh(["cmake", "--build", b, "-j16"], timeout=3600)
    meta["suite_build"] = {"exit": rc, "tail": out[-200:]}
    rc_t, out_t = sh(["ctest", "--test-dir", b, "-j8", "--timeout", "900"], timeout=3600)
    m = re.search(r"(\d+)% tests passed, (\d+) tests failed out of (\d+)", out_t)
    meta["suite"] = {"exit": rc_t, "summary": m.group(0) if m else out_t[-200:]}
    rc, out = build_demo(demo, wt, exe)
    rc1, out1 = (rc, out) if rc != 0 else run_demo(demo, exe, wt)
    meta["demo_changed"] = {"exit": rc1, "tail": out1[-300:]}
    sh(["git", "-C", wt, "checkout", "--", "."])
    meta["confirmed"] = bool(rc0 == 0 and rc1 != 0 and meta["suite_build"]["exit"] == 0 and rc_t == 0)
    # run the checks against /repo with the patch applied
    results = {} if confirm_only else run_checks(patch, props)
    meta["checks"] = results
    meta["caught_by"] = [p for p, r in results.items() if r["exit"] == 1 and r["violation"]]
    outdir = os.path.join(VERIF, "seeded", sid)
    os.makedirs(outdir, exist_ok=True)
    shutil.copy(patch, os.path.join(outdir, "patch.diff"))
    shutil.copy(demo, os.path.join(outdir, os.path.basename(demo)))
    if os.path.exists(os.path.join(d, "README.md")):
        shutil.copy(os.path.join(d, "README.md"), os.path.join(outdir, "README.md"))
    meta["ran"] = ["cmake --build + ctest in scratch worktree with the patch", "demo without / with the patch",
                   "git -C /repo apply; python3 tools/check.py <prop> --tier quick; git -C /repo checkout -- ."]
    json.dump(meta, open(os.path.join(outdir, "meta.json"), "w"), indent=1)
    print(json.dumps({"id": sid, "confirmed": meta["confirmed"], "suite": meta["suite"]["summary"], "demo": [rc0, rc1],
                      "caught_by": meta["caught_by"], "checks": {p: (r["exit"], (r["violation"] or "")[:120]) for p, r in results.items()}}, indent=1))


if __name__ == "__main__":
    main()
