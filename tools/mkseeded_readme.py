#!/usr/bin/env python3
"""Regenerates seeded/README.md (table of seeded breaking changes and the checks that catch them) from seeded/*/meta.json."""
import json, glob, os, re

VERIF = os.path.dirname(os.path.dirname(os.path.abspath(__file__)))


def first_line(readme):
    if not os.path.exists(readme):
        return ""
    for l in open(readme, encoding="utf-8", errors="replace"):
        l = l.strip()
        if l.startswith("#"):
            return re.sub(r"^#+\s*", "", l)
    return ""


def main():
    rows = []
    for mf in sorted(glob.glob(os.path.join(VERIF, "seeded", "*", "meta.json"))):
        m = json.load(open(mf))
        d = os.path.dirname(mf)
        patch = open(os.path.join(d, "patch.diff")).read()
        files = sorted(set(re.findall(r"^\+\+\+ b/(\S+)", patch, re.M)))
        rows.append((m["id"], first_line(os.path.join(d, "README.md")), ", ".join(files), m.get("suite", {}).get("summary", ""),
                     m.get("confirmed"), m.get("caught_by", []), m.get("checks", {})))
    out = ["# Seeded breaking changes", "",
           "Each directory holds one change to the library written by a fresh sub-agent that saw only the text of one property and its own",
           "scratch worktree: `patch.diff`, the agent's demonstration (`demo.*`, passes on the unchanged tree, fails with the change), the agent's",
           "`README.md` (what it breaks and what it needs to manifest) and `meta.json` written by `tools/seeded_eval.py`, which",
           "(1) re-confirmed in a scratch worktree that the pinned suite still builds and passes with the change and that the demonstration",
           "passes without / fails with it, (2) applied the change to /repo, ran the listed checks (quick tier) and reverted /repo.", "",
           "None of these changes is committed to /repo. `caught by` lists the checks that exited 1 with a VIOLATION line.", "",
           "| id | change | files | pinned suite with the change | confirmed | caught by (quick tier) |", "|---|---|---|---|---|---|"]
    missed = []
    for r in rows:
        caught = ", ".join(r[5]) if r[5] else "**none**"
        if not r[5]:
            missed.append(r[0])
        out.append(f"| {r[0]} | {r[1][:150]} | {r[2]} | {r[3]} | {'yes' if r[4] else 'NO'} | {caught} |")
    out += ["", f"{len(rows)} changes, {len(rows) - len(missed)} caught." + (f" Not caught: {', '.join(missed)}." if missed else ""), ""]
    open(os.path.join(VERIF, "seeded", "README.md"), "w").write("\n".join(out))
    print("\n".join(out[-3:]))


if __name__ == "__main__":
    main()
