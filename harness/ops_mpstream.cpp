// MsgPack reader HISTORIES: a sequence of public entry-point calls on ONE reader object
// (CMsgPackStringReader or CMsgPackStreamReader of the current tree).
//
//   mp.seq <mem|stream> <ovf> <mis> <hex> <call;call;...>
//        call: type | skip | nil | bool u8 u16 u32 u64 char i8 i16 i32 i64 | f32 | f64 | str | ts | arr | map | bin
//              | rb (ReadBinary) | pos (GetPosition) | set:<q> (SetPosition) | end (IsEnd)
//        -> one answer per call joined by ';' : "<value>@<pos>" (returned true / plain result), "no@<pos>" (returned false);
//           the first exception ends the history with "err:<class>"
//
// MsgPack writer SESSIONS: a sequence of calls on ONE CMsgPackStringWriter and on ONE CMsgPackStreamWriter.
//
//   mp.wseq <call,call,...>
//        call: nil | bool:<0|1> | u8 u16 u32 u64 i8 i16 i32 i64 :<decimal> | f32:<hex8> | f64:<hex16> | str:<hex> | ts:<sec>:<ns>
//              | arr:<n> | map:<n> | bin:<n> | bb:<0..255> (WriteBinary)
//        -> "<hex of the string> same" | "<hex> diff <hex of the stream>" | "err <class>" (both threw the same) | "mixed <a> <b>"
#include "harness.h"
#include "msgpack/msgpack_readers.h"
#include "msgpack/msgpack_writers.h"
#include <sstream>
#include <cstring>
#include <memory>

using namespace vh;
namespace MP = BitSerializer::MsgPack::Detail;
using BitSerializer::Detail::CBinTimestamp;

std::string describeException(const std::exception& e);   // ops_common.cpp

namespace {

std::vector<std::string> splitBy(const std::string& s, char sep) {
	std::vector<std::string> out; std::string cur;
	for (char c : s) { if (c == sep) { out.push_back(cur); cur.clear(); } else cur += c; }
	out.push_back(cur);
	return out;
}

std::string hexN(uint64_t v, int digits) {
	static const char* d = "0123456789abcdef";
	std::string s(digits, '0');
	for (int i = digits - 1; i >= 0; --i) { s[i] = d[v & 15]; v >>= 4; }
	return s;
}

template <class T>
std::string readInt(MP::IMsgPackReader& r) {
	T v = static_cast<T>(0x55);
	if (!r.ReadValue(v)) return "no";
	std::ostringstream os;
	if constexpr (std::is_same_v<T, bool>) os << (v ? 1 : 0);
	else if constexpr (std::is_signed_v<T>) os << static_cast<long long>(v);
	else os << static_cast<unsigned long long>(v);
	return os.str();
}

std::string oneCall(MP::IMsgPackReader& r, const std::string& c) {
	std::ostringstream os;
	if (c == "type") { os << static_cast<int>(r.ReadValueType()); return os.str(); }
	if (c == "skip") { r.SkipValue(); return "-"; }
	if (c == "nil") { std::nullptr_t v{}; return r.ReadValue(v) ? "-" : "no"; }
	if (c == "bool") return readInt<bool>(r);
	if (c == "u8") return readInt<uint8_t>(r);
	if (c == "u16") return readInt<uint16_t>(r);
	if (c == "u32") return readInt<uint32_t>(r);
	if (c == "u64") return readInt<uint64_t>(r);
	if (c == "char") return readInt<char>(r);
	if (c == "i8") return readInt<int8_t>(r);
	if (c == "i16") return readInt<int16_t>(r);
	if (c == "i32") return readInt<int32_t>(r);
	if (c == "i64") return readInt<int64_t>(r);
	if (c == "f32") { float v = 0; if (!r.ReadValue(v)) return "no"; uint32_t b; std::memcpy(&b, &v, 4); return hexN(b, 8); }
	if (c == "f64") { double v = 0; if (!r.ReadValue(v)) return "no"; uint64_t b; std::memcpy(&b, &v, 8); return hexN(b, 16); }
	if (c == "str") { std::string_view v; if (!r.ReadValue(v)) return "no"; return hexBytes(std::string(v)); }
	if (c == "ts") { CBinTimestamp v(0, 0); if (!r.ReadValue(v)) return "no"; os << v.Seconds << ':' << v.Nanoseconds; return os.str(); }
	if (c == "arr") { size_t n = 0; if (!r.ReadArraySize(n)) return "no"; return std::to_string(n); }
	if (c == "map") { size_t n = 0; if (!r.ReadMapSize(n)) return "no"; return std::to_string(n); }
	if (c == "bin") { size_t n = 0; if (!r.ReadBinarySize(n)) return "no"; return std::to_string(n); }
	if (c == "rb") { return std::to_string(static_cast<unsigned>(static_cast<unsigned char>(r.ReadBinary()))); }
	if (c == "pos") { return std::to_string(r.GetPosition()); }
	if (c == "end") { return r.IsEnd() ? "1" : "0"; }
	if (c.rfind("set:", 0) == 0) {
		const std::string q = c.substr(4);
		if (q.empty() || q.find_first_not_of("0123456789") != std::string::npos) throw BadOp("set");
		r.SetPosition(static_cast<size_t>(std::stoull(q)));
		return "-";
	}
	throw BadOp("call");
}

Register rq("mp.seq", [](const Tokens& t) -> std::string {
	if (t.size() != 6) throw BadOp("arity");
	BitSerializer::SerializationOptions opts;
	if (t[2] == "throw") opts.overflowNumberPolicy = BitSerializer::OverflowNumberPolicy::ThrowError;
	else if (t[2] == "skip") opts.overflowNumberPolicy = BitSerializer::OverflowNumberPolicy::Skip;
	else throw BadOp("ovf");
	if (t[3] == "throw") opts.mismatchedTypesPolicy = BitSerializer::MismatchedTypesPolicy::ThrowError;
	else if (t[3] == "skip") opts.mismatchedTypesPolicy = BitSerializer::MismatchedTypesPolicy::Skip;
	else throw BadOp("mis");
	const std::string data = parseBytes(t[4]);
	const auto calls = splitBy(t[5], ';');
	// validate the call names first: a malformed op must not look like a reader answer
	static const char* names[] = { "type", "skip", "nil", "bool", "u8", "u16", "u32", "u64", "char", "i8", "i16", "i32", "i64", "f32", "f64",
		"str", "ts", "arr", "map", "bin", "rb", "pos", "end" };
	for (const auto& c : calls) {
		bool ok = c.rfind("set:", 0) == 0 && c.size() > 4 && c.find_first_not_of("0123456789", 4) == std::string::npos;
		for (auto n : names) ok = ok || c == n;
		if (!ok) throw BadOp("call");
	}
	std::unique_ptr<std::istringstream> is;
	std::unique_ptr<MP::IMsgPackReader> rd;
	if (t[1] == "mem") rd = std::make_unique<MP::CMsgPackStringReader>(std::string_view(data), opts);
	else if (t[1] == "stream") { is = std::make_unique<std::istringstream>(data); rd = std::make_unique<MP::CMsgPackStreamReader>(*is, opts); }
	else throw BadOp("src");
	std::string out;
	for (const auto& c : calls) {
		if (!out.empty()) out += ';';
		try {
			const std::string a = oneCall(*rd, c);
			out += a + "@" + std::to_string(rd->GetPosition());
		}
		catch (const BadOp&) { throw; }
		catch (const std::exception& e) { out += "err:" + describeException(e); break; }
	}
	return out;
});

template <class T> T numU(const std::string& s) {
	if (s.empty() || s.find_first_not_of("0123456789") != std::string::npos) throw BadOp("unsigned");
	const auto v = std::stoull(s);
	if (v > std::numeric_limits<T>::max()) throw BadOp("range");
	return static_cast<T>(v);
}
template <class T> T numI(const std::string& s) {
	size_t n = 0; const auto v = std::stoll(s, &n, 10);
	if (n != s.size()) throw BadOp("signed");
	if (v > std::numeric_limits<T>::max() || v < std::numeric_limits<T>::min()) throw BadOp("range");
	return static_cast<T>(v);
}
uint64_t hexU(const std::string& s, size_t digits) {
	if (s.size() != digits) throw BadOp("hexwidth");
	uint64_t v = 0; for (char c : s) v = v * 16 + hexval(c);
	return v;
}

template <class TWriter>
void writeCall(TWriter& w, const std::vector<std::string>& c) {
	auto need = [&](size_t n) { if (c.size() != n) throw BadOp("arity"); };
	const std::string& e = c[0];
	if (e == "nil") { need(1); w.WriteValue(nullptr); }
	else if (e == "bool") { need(2); if (c[1] != "0" && c[1] != "1") throw BadOp("bool"); w.WriteValue(c[1] == "1"); }
	else if (e == "u8") { need(2); w.WriteValue(numU<uint8_t>(c[1])); }
	else if (e == "u16") { need(2); w.WriteValue(numU<uint16_t>(c[1])); }
	else if (e == "u32") { need(2); w.WriteValue(numU<uint32_t>(c[1])); }
	else if (e == "u64") { need(2); w.WriteValue(numU<uint64_t>(c[1])); }
	else if (e == "i8") { need(2); w.WriteValue(numI<int8_t>(c[1])); }
	else if (e == "i16") { need(2); w.WriteValue(numI<int16_t>(c[1])); }
	else if (e == "i32") { need(2); w.WriteValue(numI<int32_t>(c[1])); }
	else if (e == "i64") { need(2); w.WriteValue(numI<int64_t>(c[1])); }
	else if (e == "f32") { need(2); const auto b = static_cast<uint32_t>(hexU(c[1], 8)); float f; std::memcpy(&f, &b, 4); w.WriteValue(f); }
	else if (e == "f64") { need(2); const auto b = hexU(c[1], 16); double f; std::memcpy(&f, &b, 8); w.WriteValue(f); }
	else if (e == "str") { need(2); const std::string d = parseBytes(c[1]); w.WriteValue(std::string_view(d)); }
	else if (e == "ts") { need(3); w.WriteValue(CBinTimestamp(numI<int64_t>(c[1]), numI<int32_t>(c[2]))); }
	else if (e == "arr") { need(2); w.BeginArray(static_cast<size_t>(numU<uint64_t>(c[1]))); }
	else if (e == "map") { need(2); w.BeginMap(static_cast<size_t>(numU<uint64_t>(c[1]))); }
	else if (e == "bin") { need(2); w.BeginBinary(static_cast<size_t>(numU<uint64_t>(c[1]))); }
	else if (e == "bb") { need(2); w.WriteBinary(static_cast<char>(numU<uint8_t>(c[1]))); }
	else throw BadOp("call");
}

Register rws("mp.wseq", [](const Tokens& t) -> std::string {
	if (t.size() != 2) throw BadOp("arity");
	std::vector<std::vector<std::string>> calls;
	for (const auto& c : splitBy(t[1], ',')) calls.push_back(splitBy(c, ':'));
	std::string a, b, ea, eb;
	try { MP::CMsgPackStringWriter w(a); for (const auto& c : calls) writeCall(w, c); }
	catch (const BadOp&) { throw; }
	catch (const std::exception& e) { ea = describeException(e); }
	try { std::ostringstream os; MP::CMsgPackStreamWriter w(os); try { for (const auto& c : calls) writeCall(w, c); } catch (...) { b = os.str(); throw; } b = os.str(); }
	catch (const BadOp&) { throw; }
	catch (const std::exception& e) { eb = describeException(e); }
	if (!ea.empty() || !eb.empty()) {
		if (ea == eb) return "err " + ea;
		return "mixed " + (ea.empty() ? hexBytes(a) : "err:" + ea) + " " + (eb.empty() ? hexBytes(b) : "err:" + eb);
	}
	if (a == b) return hexBytes(a) + " same";
	return hexBytes(a) + " diff " + hexBytes(b);
});

} // namespace
