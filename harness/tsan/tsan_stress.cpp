// ThreadSanitizer stress for C19: T threads, each running a seeded mix of SaveObject/LoadObject (four
// archives, memory and stream), Convert::To (numbers, enums, chrono, UTF) and validation-failing loads on
// THREAD-LOCAL data plus shared read-only inputs (literal documents and one const source object with a member of every supported
// kind); the concurrent run comes first (cold start: lazily initialised state is initialised by racing threads), every result is then
// compared with the sequential result of the same operation; finally a trivially-copyable source object is saved from a READ-ONLY
// page (a save that writes into its source is a crash). Usage: tsan_stress <threads> <iters> <seed>   -> prints "ok <ops>" or "mismatch …"
// (data races are reported by TSan on stderr and make the exit code 66)
#include <thread>
#include <bitset>
#include <vector>
#include <string>
#include <sstream>
#include <map>
#include <optional>
#include <random>
#include <atomic>
#include <chrono>
#include <iostream>
#include "bitserializer/bit_serializer.h"
#include "bitserializer/msgpack_archive.h"
#include "bitserializer/csv_archive.h"
#include "bitserializer/rapidjson_archive.h"
#include "bitserializer/pugixml_archive.h"
#include "bitserializer/types/std/vector.h"
#include "bitserializer/types/std/map.h"
#include "bitserializer/types/std/optional.h"
#include "bitserializer/types/std/pair.h"
#include "bitserializer/types/std/chrono.h"
#include "bitserializer/types/std/bitset.h"
#include "bitserializer/types/std/array.h"
#include "bitserializer/types/std/set.h"
#include "bitserializer/types/std/deque.h"
#include "bitserializer/types/std/list.h"
#include "bitserializer/types/std/forward_list.h"
#include "bitserializer/types/std/tuple.h"
#include "bitserializer/types/std/unordered_map.h"
#include "bitserializer/types/std/memory.h"
#include "bitserializer/types/std/atomic.h"
#include "bitserializer/types/std/ctime.h"
#include <cstddef>
#include <cstring>
#include <sys/mman.h>

using namespace BitSerializer;

enum class Color { Red, Green, Blue };
REGISTER_ENUM(Color, { { Color::Red, "Red" }, { Color::Green, "Green" }, { Color::Blue, "Blue" } })

struct Inner {
	int a = 0; std::string s; Color c = Color::Red;
	template <class TArchive> void Serialize(TArchive& archive) { archive << KeyValue("a", a) << KeyValue("s", s) << KeyValue("c", c); }
};
struct Outer {
	int id = 0; std::u16string name; std::vector<int> nums; Inner inner; std::map<std::string, int> m; std::optional<int> opt;
	std::pair<std::string, int> p; std::chrono::seconds dur{0};
	template <class TArchive> void Serialize(TArchive& archive) {
		archive << KeyValue("id", id, Required(), Range<int>(0, 1000)) << KeyValue("name", name) << KeyValue("nums", nums)
			<< KeyValue("inner", inner) << KeyValue("m", m) << KeyValue("opt", opt) << KeyValue("p", p) << KeyValue("dur", dur);
	}
};
struct Row {
	int x = 0; std::string y; double z = 0;
	template <class TArchive> void Serialize(TArchive& archive) { archive << KeyValue("x", x) << KeyValue("y", y) << KeyValue("z", z); }
};

static Outer makeOuter(unsigned k) {
	Outer o; o.id = static_cast<int>(k % 900); o.name = u"né€" + std::u16string(k % 7, u'x'); o.nums = { 1, static_cast<int>(k), -3 };
	o.inner.a = -static_cast<int>(k % 50); o.inner.s = "s" + std::to_string(k); o.inner.c = static_cast<Color>(k % 3);
	o.m = { {"k1", 1}, {"k" + std::to_string(k % 5), static_cast<int>(k)} }; if (k % 2) o.opt = static_cast<int>(k);
	o.p = { "pk", static_cast<int>(k % 11) }; o.dur = std::chrono::seconds(k * 37); return o;
}

// one operation, deterministic in k; returns a canonical string result
struct Wide {
	std::u16string a; std::u32string b; std::wstring c;
	template <class TArchive> void Serialize(TArchive& archive) { archive << KeyValue("a", a) << KeyValue("b", b) << KeyValue("c", c); }
};

// a CONST source object shared by all threads (property: "sharing only constants ... const source objects")
struct SharedSrc {
	std::bitset<70> bits; std::vector<bool> flags; std::string text; std::vector<int> nums; std::optional<int> opt;
	// every kind of member a source object can have: saving must only READ them (they are shared between the threads)
	std::byte oneByte{}; std::array<std::byte, 3> bytes3{}; std::vector<std::byte> byteVec; unsigned char uc = 0; signed char sc = 0; bool flag = false;
	int16_t i16 = 0; uint64_t u64 = 0; int64_t i64 = 0; float f = 0; double d = 0; Color color = Color::Red; std::nullptr_t nil = nullptr;
	std::u16string s16; std::u32string s32; std::wstring ws; std::pair<int, std::string> pr; std::tuple<int, std::string, double> tup;
	std::map<int, std::string> mapIS; std::unordered_map<std::string, int> umap; std::multimap<int, int> mmap; std::set<std::string> setS;
	std::deque<double> dq; std::list<int> lst; std::forward_list<int> fl; std::array<int, 3> arr3{}; Inner inner; std::vector<Inner> inners;
	std::chrono::seconds dur{0}; std::chrono::time_point<std::chrono::system_clock, std::chrono::milliseconds> tp{};
	std::unique_ptr<int> up; std::shared_ptr<std::string> sp; std::optional<Inner> optInner; int cArr[3] = { 0, 0, 0 };
	template <class TArchive> void Serialize(TArchive& archive) {
		archive << KeyValue("bits", bits) << KeyValue("flags", flags) << KeyValue("text", text) << KeyValue("nums", nums) << KeyValue("opt", opt);
		archive << KeyValue("oneByte", oneByte) << KeyValue("bytes3", bytes3) << KeyValue("byteVec", byteVec) << KeyValue("uc", uc) << KeyValue("sc", sc) << KeyValue("flag", flag)
			<< KeyValue("i16", i16) << KeyValue("u64", u64) << KeyValue("i64", i64) << KeyValue("f", f) << KeyValue("d", d) << KeyValue("color", color) << KeyValue("nil", nil)
			<< KeyValue("s16", s16) << KeyValue("s32", s32) << KeyValue("ws", ws) << KeyValue("pr", pr) << KeyValue("tup", tup)
			<< KeyValue("mapIS", mapIS) << KeyValue("umap", umap) << KeyValue("mmap", mmap) << KeyValue("setS", setS)
			<< KeyValue("dq", dq) << KeyValue("lst", lst) << KeyValue("fl", fl) << KeyValue("arr3", arr3) << KeyValue("inner", inner) << KeyValue("inners", inners)
			<< KeyValue("dur", dur) << KeyValue("tp", tp) << KeyValue("up", up) << KeyValue("sp", sp) << KeyValue("optInner", optInner) << KeyValue("cArr", cArr);
	}
};
static SharedSrc makeSharedSrc() {
	SharedSrc v; v.bits = std::bitset<70>(0x5A5A5A5A5A5A5A5AULL); v.bits.set(69); v.flags = { true, false, true, true };
	v.text = "shared const text"; v.nums = { 1, 2, 3, 70000 }; v.opt = 5;
	v.oneByte = std::byte{0xA5}; v.bytes3 = { std::byte{1}, std::byte{0x80}, std::byte{0xFF} }; v.byteVec = { std::byte{7}, std::byte{0xC8} }; v.uc = 200; v.sc = -100; v.flag = true;
	v.i16 = -12345; v.u64 = 0xFFFFFFFFFFFFFFFFULL; v.i64 = -5000000000LL; v.f = 1.5f; v.d = -0.1; v.color = Color::Blue;
	v.s16 = u"шестнадцать"; v.s32 = U"thirty-two \U0001F600"; v.ws = L"wide"; v.pr = { 7, "seven" }; v.tup = { 1, "two", 3.25 };
	v.mapIS = { {1, "one"}, {-2, "minus two"} }; v.umap = { {"k", 1} }; v.mmap = { {1, 10}, {1, 11}, {2, 20} }; v.setS = { "a", "b" };
	v.dq = { 0.5, 1e100 }; v.lst = { 3, 2, 1 }; v.fl = { 9, 8 }; v.arr3 = { 4, 5, 6 }; v.inner = { 42, "inner", Color::Green }; v.inners = { {1, "x", Color::Red}, {2, "y", Color::Blue} };
	v.dur = std::chrono::seconds(86399); v.tp = decltype(v.tp)(std::chrono::milliseconds(1700000000123LL));
	v.up = std::make_unique<int>(77); v.sp = std::make_shared<std::string>("shared ptr"); v.optInner = Inner{ 5, "opt", Color::Red }; v.cArr[0] = 11; v.cArr[1] = 12; v.cArr[2] = 13;
	return v;
}
static const SharedSrc& sharedSrc() {
	static const SharedSrc s = makeSharedSrc();
	return s;
}

// a trivially-copyable source object that is placed in a READ-ONLY page: a save that writes into its source dies with SIGSEGV
struct RoPod {
	std::byte b{}; unsigned char uc = 0; signed char sc = 0; bool flag = false; int16_t i16 = 0; uint16_t u16 = 0; int32_t i32 = 0; uint32_t u32 = 0; int64_t i64 = 0; uint64_t u64 = 0;
	float f = 0; double d = 0; Color color = Color::Red; std::nullptr_t nil = nullptr; std::array<std::byte, 4> bytes{}; std::array<int, 3> arr{}; int cArr[2] = { 0, 0 };
	std::chrono::seconds dur{0}; std::chrono::time_point<std::chrono::system_clock, std::chrono::seconds> tp{}; std::bitset<9> bits; std::optional<int> opt; std::pair<int, double> pr{};
	std::tuple<int, float> tup{};
	template <class TArchive> void Serialize(TArchive& archive) {
		archive << KeyValue("b", b) << KeyValue("uc", uc) << KeyValue("sc", sc) << KeyValue("flag", flag) << KeyValue("i16", i16) << KeyValue("u16", u16) << KeyValue("i32", i32)
			<< KeyValue("u32", u32) << KeyValue("i64", i64) << KeyValue("u64", u64) << KeyValue("f", f) << KeyValue("d", d) << KeyValue("color", color) << KeyValue("nil", nil)
			<< KeyValue("bytes", bytes) << KeyValue("arr", arr) << KeyValue("cArr", cArr) << KeyValue("dur", dur) << KeyValue("tp", tp) << KeyValue("bits", bits)
			<< KeyValue("opt", opt) << KeyValue("pr", pr) << KeyValue("tup", tup);
	}
};
struct RoRow {      // CSV: flat rows of scalars
	std::byte b{}; unsigned char uc = 0; int64_t i64 = 0; double d = 0; bool flag = false; Color color = Color::Red; std::chrono::seconds dur{0};
	template <class TArchive> void Serialize(TArchive& archive) {
		archive << KeyValue("b", b) << KeyValue("uc", uc) << KeyValue("i64", i64) << KeyValue("d", d) << KeyValue("flag", flag) << KeyValue("color", color) << KeyValue("dur", dur);
	}
};
static std::string saveFromReadOnlyMemory() {
	static_assert(std::is_trivially_destructible_v<RoPod> && std::is_trivially_destructible_v<RoRow>);
	const size_t page = 4096, len = ((sizeof(RoPod) + sizeof(std::array<RoRow, 2>) + 64) / page + 1) * page;
	void* mem = mmap(nullptr, len, PROT_READ | PROT_WRITE, MAP_PRIVATE | MAP_ANONYMOUS, -1, 0);
	if (mem == MAP_FAILED) return "mmap-failed";
	auto* pod = new (mem) RoPod();
	pod->b = std::byte{0xA5}; pod->uc = 200; pod->sc = -100; pod->flag = true; pod->i16 = -12345; pod->u16 = 54321; pod->i32 = -7; pod->u32 = 4000000000u; pod->i64 = -5000000000LL;
	pod->u64 = 0xFFFFFFFFFFFFFFFFULL; pod->f = 1.5f; pod->d = -0.1; pod->color = Color::Blue; pod->bytes = { std::byte{1}, std::byte{2}, std::byte{0x80}, std::byte{0xFF} };
	pod->arr = { 4, 5, 6 }; pod->cArr[0] = 11; pod->cArr[1] = 12; pod->dur = std::chrono::seconds(86399); pod->tp = decltype(pod->tp)(std::chrono::seconds(1700000000));
	pod->bits = std::bitset<9>(0x155); pod->opt = 5; pod->pr = { 7, 0.5 }; pod->tup = { 1, 2.5f };
	auto* rows = new (static_cast<char*>(mem) + ((sizeof(RoPod) + 63) / 64) * 64) std::array<RoRow, 2>();
	(*rows)[0] = { std::byte{9}, 255, -1, 2.5, true, Color::Green, std::chrono::seconds(5) }; (*rows)[1] = { std::byte{0}, 0, 1LL << 40, -0.0, false, Color::Red, std::chrono::seconds(-5) };
	if (mprotect(mem, len, PROT_READ) != 0) return "mprotect-failed";
	const RoPod& cp = *pod; const std::array<RoRow, 2>& cr = *rows;
	std::string out = SaveObject<MsgPack::MsgPackArchive>(cp) + "|" + SaveObject<Json::RapidJson::JsonArchive>(cp) + "|" + SaveObject<Xml::PugiXml::XmlArchive>(cp) + "|" + SaveObject<Csv::CsvArchive>(cr);
	{ std::ostringstream os; SaveObject<MsgPack::MsgPackArchive>(cp, os); out += "|" + os.str(); }
	{ std::ostringstream os; SaveObject<Json::RapidJson::JsonArchive>(cp, os); out += "|" + os.str(); }
	{ std::ostringstream os; SaveObject<Xml::PugiXml::XmlArchive>(cp, os); out += "|" + os.str(); }
	{ std::ostringstream os; SaveObject<Csv::CsvArchive>(cr, os); out += "|" + os.str(); }
	munmap(mem, len);
	return std::to_string(out.size());
}

static std::string runOp(unsigned kind, unsigned k, const std::string& sharedMp, const std::string& sharedJson) {
	try {
		switch (kind % 18) {
		case 0: return SaveObject<MsgPack::MsgPackArchive>(makeOuter(k));
		case 1: return SaveObject<Json::RapidJson::JsonArchive>(makeOuter(k));
		case 2: return SaveObject<Xml::PugiXml::XmlArchive>(makeOuter(k));
		case 3: { std::vector<Row> r{ {static_cast<int>(k), "a,b", 1.5}, {2, "q\"", -2.0} }; return SaveObject<Csv::CsvArchive>(r); }
		case 4: { Outer o; LoadObject<MsgPack::MsgPackArchive>(o, sharedMp); return std::to_string(o.id) + o.inner.s; }
		case 5: { Outer o; LoadObject<Json::RapidJson::JsonArchive>(o, sharedJson); return std::to_string(o.id) + o.inner.s; }
		case 6: { std::ostringstream os; auto o = makeOuter(k); SaveObject<MsgPack::MsgPackArchive>(o, os); std::istringstream is(os.str()); Outer o2; LoadObject<MsgPack::MsgPackArchive>(o2, is); return std::to_string(o2.id) + Convert::ToString(o2.name); }
		case 7: return Convert::ToString(static_cast<int>(k) * 7919) + Convert::ToString(Convert::To<int>(std::to_string(k))) + Convert::ToString(static_cast<Color>(k % 3)) + Convert::ToString(Convert::To<Color>(std::string(k % 2 ? "green" : "BLUE")));
		case 8: { auto tp = std::chrono::system_clock::time_point(std::chrono::seconds(k * 86400LL + k)); auto s = Convert::ToString(std::chrono::time_point_cast<std::chrono::seconds>(tp)); auto back = Convert::To<std::chrono::time_point<std::chrono::system_clock, std::chrono::seconds>>(s); return s + std::to_string(back.time_since_epoch().count()); }
		case 9: return Convert::To<std::string>(std::u32string(U"世界") + std::u32string(k % 5, U'\U0001F600'));
		case 10: { // validation-failing load
			auto o = makeOuter(k); o.id = 5000; auto doc = SaveObject<Json::RapidJson::JsonArchive>(o); Outer o2;
			try { LoadObject<Json::RapidJson::JsonArchive>(o2, doc); return "novalidation"; }
			catch (const ValidationException& e) { return "validation" + std::to_string(e.GetValidationErrors().size()); } }
		case 12: { // time_t wrappers (CRawTime) both ways
			const time_t tt = static_cast<time_t>(k) * 86399 + 17; auto str = Convert::ToString(CRawTime(tt));
			return str + std::to_string(static_cast<long long>(Convert::To<CRawTime>(str).Time)); }
		case 13: { // ISO durations and sub-second time points
			auto d = std::chrono::milliseconds(static_cast<long long>(k) * 1001 - 50000); auto str = Convert::ToString(d);
			auto tp = std::chrono::time_point<std::chrono::system_clock, std::chrono::milliseconds>(std::chrono::milliseconds(k * 1000003LL));
			return str + std::to_string(Convert::To<std::chrono::milliseconds>(str).count()) + Convert::ToString(tp); }
		case 14: { // wide-string fields of every width through the text archives (transcoding buffers)
			Wide w; w.a = u"шестнадцать-" + std::u16string(k % 5, u'я'); w.b = U"thirty-two-\U0001F600" + std::u32string(k % 3, U'z'); w.c = L"wide-" + std::to_wstring(k);
			auto js = SaveObject<Json::RapidJson::JsonArchive>(w); Wide w2; LoadObject<Json::RapidJson::JsonArchive>(w2, js);
			auto xs = SaveObject<Xml::PugiXml::XmlArchive>(w); Wide w3; LoadObject<Xml::PugiXml::XmlArchive>(w3, xs);
			return js + xs + Convert::ToString(w2.a) + Convert::ToString(w3.b) + Convert::ToString(w2.c); }
		case 15: { // enum names in another letter case, bool and floating-point text
			return Convert::ToString(Convert::To<Color>(std::string(k % 3 == 0 ? "RED" : k % 3 == 1 ? "gReEn" : "blue"))) + Convert::ToString(Convert::To<double>(std::to_string(k) + ".5")) +
				Convert::ToString(Convert::To<bool>(std::string(k % 2 ? "TRUE" : "false"))) + Convert::To<std::string>(std::wstring(L"w") + std::to_wstring(k)) +
				// numbers parsed from 16/32-bit strings (they are transcoded through a scratch buffer first)
				Convert::ToString(Convert::To<int>(std::u16string(u"00000000000000000") + Convert::To<std::u16string>(std::to_string(k)))) +
				Convert::ToString(Convert::To<double>(std::wstring(L"0.5e1") )) + Convert::ToString(Convert::To<int64_t>(Convert::To<std::u32string>(std::to_string(k * 77777LL)))); }
		case 16: return SaveObject<MsgPack::MsgPackArchive>(sharedSrc()) + std::to_string(k % 2);
		case 17: return (k % 2 ? SaveObject<Json::RapidJson::JsonArchive>(sharedSrc()) : SaveObject<Xml::PugiXml::XmlArchive>(sharedSrc()));
		case 11: { std::vector<Row> r; LoadObject<Csv::CsvArchive>(r, std::string("x,y,z\r\n1,\"a,b\",1.5\r\n") + std::to_string(k) + ",k,2\r\n"); return std::to_string(r.size()) + r.back().y + std::to_string(r.back().x); }
		}
	} catch (const std::exception& e) { return std::string("EXC:") + e.what(); }
	return "?";
}

// shared read-only inputs are LITERAL documents (nothing of the library runs before the threads start, so state that is initialised
// lazily on first use is initialised by racing threads); MsgPack document = SaveObject(makeOuter(7)) of the pinned tree
static const char kSharedJson[] = R"JSON({"id":7,"name":"né€","nums":[1,7,-3],"inner":{"a":-7,"s":"s7","c":"Green"},"m":{"k1":1,"k2":7},"opt":7,"p":{"key":"pk","value":7},"dur":"PT4M19S"})JSON";
static const unsigned char kSharedMp[] = { 136,162,105,100,7,164,110,97,109,101,166,110,195,169,226,130,172,164,110,117,109,115,147,1,7,253,165,105,110,110,101,114,131,161,97,249,161,115,162,115,55,161,99,165,71,114,101,101,110,161,109,130,162,107,49,1,162,107,50,7,163,111,112,116,7,161,112,130,163,107,101,121,162,112,107,165,118,97,108,117,101,7,163,100,117,114,214,255,0,0,1,3 };

int main(int argc, char** argv) {
	const unsigned threads = argc > 1 ? std::stoul(argv[1]) : 8, iters = argc > 2 ? std::stoul(argv[2]) : 500, seed = argc > 3 ? std::stoul(argv[3]) : 1;
	if (argc > 4 && std::string(argv[4]) == "dump") {       // maintenance: prints the literal documents above
		std::cout << SaveObject<Json::RapidJson::JsonArchive>(makeOuter(7)) << "\n";
		for (unsigned char c : SaveObject<MsgPack::MsgPackArchive>(makeOuter(7))) std::cout << static_cast<unsigned>(c) << ",";
		std::cout << "\n"; return 0;
	}
	const std::string sharedMp(reinterpret_cast<const char*>(kSharedMp), sizeof(kSharedMp));
	const std::string sharedJson(kSharedJson);
	std::vector<std::vector<std::pair<unsigned, unsigned>>> plan(threads);
	std::vector<std::vector<std::string>> golden(threads), actual(threads);
	std::mt19937 rng(seed);
	for (unsigned t = 0; t < threads; ++t)
		for (unsigned i = 0; i < iters; ++i) { plan[t].push_back({ static_cast<unsigned>(rng()), static_cast<unsigned>(rng() % 100000) }); }
	// the concurrent run comes FIRST (cold start), the sequential golden run afterwards
	std::atomic<bool> go{false};
	std::vector<std::thread> pool;
	for (unsigned t = 0; t < threads; ++t) {
		pool.emplace_back([&, t] {
			while (!go.load()) std::this_thread::yield();
			for (auto& [kind, k] : plan[t]) actual[t].push_back(runOp(kind, k, sharedMp, sharedJson));
		});
	}
	go = true;
	for (auto& th : pool) th.join();
	for (unsigned t = 0; t < threads; ++t) for (auto& [kind, k] : plan[t]) golden[t].push_back(runOp(kind, k, sharedMp, sharedJson));
	size_t ops = 0;
	for (unsigned t = 0; t < threads; ++t)
		for (size_t i = 0; i < golden[t].size(); ++i, ++ops)
			if (golden[t][i] != actual[t][i]) { std::cout << "mismatch thread=" << t << " op=" << i << " kind=" << plan[t][i].first % 18 << "\n"; return 1; }
	// saving from a source object in read-only memory (a write into the source is a crash here, and a race when the source is shared)
	const std::string ro = saveFromReadOnlyMemory();
	if (ro.find("failed") != std::string::npos) { std::cout << "readonly-setup " << ro << "\n"; return 1; }
	std::cout << "ok " << ops << "\n";
	return 0;
}
