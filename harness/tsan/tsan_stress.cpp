// ThreadSanitizer stress for C19: T threads, each running a seeded mix of SaveObject/LoadObject (four
// archives, memory and stream), Convert::To (numbers, enums, chrono, UTF) and validation-failing loads on
// THREAD-LOCAL data plus shared read-only inputs; every result is compared with the sequential golden
// result of the same operation. Usage: tsan_stress <threads> <iters> <seed>   -> prints "ok <ops>" or "mismatch …"
// (data races are reported by TSan on stderr and make the exit code 66)
#include <thread>
#include <bitset>
#include <vector>
#include <string>
#include <sstream>
#include <map>
#include <optional>
#include <random>
#include <atomic>
#include <chrono>
#include <iostream>
#include "bitserializer/bit_serializer.h"
#include "bitserializer/msgpack_archive.h"
#include "bitserializer/csv_archive.h"
#include "bitserializer/rapidjson_archive.h"
#include "bitserializer/pugixml_archive.h"
#include "bitserializer/types/std/vector.h"
#include "bitserializer/types/std/map.h"
#include "bitserializer/types/std/optional.h"
#include "bitserializer/types/std/pair.h"
#include "bitserializer/types/std/chrono.h"
#include "bitserializer/types/std/bitset.h"

using namespace BitSerializer;

enum class Color { Red, Green, Blue };
REGISTER_ENUM(Color, { { Color::Red, "Red" }, { Color::Green, "Green" }, { Color::Blue, "Blue" } })

struct Inner {
	int a = 0; std::string s; Color c = Color::Red;
	template <class TArchive> void Serialize(TArchive& archive) { archive << KeyValue("a", a) << KeyValue("s", s) << KeyValue("c", c); }
};
struct Outer {
	int id = 0; std::u16string name; std::vector<int> nums; Inner inner; std::map<std::string, int> m; std::optional<int> opt;
	std::pair<std::string, int> p; std::chrono::seconds dur{0};
	template <class TArchive> void Serialize(TArchive& archive) {
		archive << KeyValue("id", id, Required(), Range<int>(0, 1000)) << KeyValue("name", name) << KeyValue("nums", nums)
			<< KeyValue("inner", inner) << KeyValue("m", m) << KeyValue("opt", opt) << KeyValue("p", p) << KeyValue("dur", dur);
	}
};
struct Row {
	int x = 0; std::string y; double z = 0;
	template <class TArchive> void Serialize(TArchive& archive) { archive << KeyValue("x", x) << KeyValue("y", y) << KeyValue("z", z); }
};

static Outer makeOuter(unsigned k) {
	Outer o; o.id = static_cast<int>(k % 900); o.name = u"né€" + std::u16string(k % 7, u'x'); o.nums = { 1, static_cast<int>(k), -3 };
	o.inner.a = -static_cast<int>(k % 50); o.inner.s = "s" + std::to_string(k); o.inner.c = static_cast<Color>(k % 3);
	o.m = { {"k1", 1}, {"k" + std::to_string(k % 5), static_cast<int>(k)} }; if (k % 2) o.opt = static_cast<int>(k);
	o.p = { "pk", static_cast<int>(k % 11) }; o.dur = std::chrono::seconds(k * 37); return o;
}

// one operation, deterministic in k; returns a canonical string result
struct Wide {
	std::u16string a; std::u32string b; std::wstring c;
	template <class TArchive> void Serialize(TArchive& archive) { archive << KeyValue("a", a) << KeyValue("b", b) << KeyValue("c", c); }
};

// a CONST source object shared by all threads (property: "sharing only constants ... const source objects")
struct SharedSrc {
	std::bitset<70> bits; std::vector<bool> flags; std::string text; std::vector<int> nums; std::optional<int> opt;
	template <class TArchive> void Serialize(TArchive& archive) {
		archive << KeyValue("bits", bits) << KeyValue("flags", flags) << KeyValue("text", text) << KeyValue("nums", nums) << KeyValue("opt", opt);
	}
};
static const SharedSrc& sharedSrc() {
	static const SharedSrc s = [] { SharedSrc v; v.bits = std::bitset<70>(0x5A5A5A5A5A5A5A5AULL); v.bits.set(69); v.flags = { true, false, true, true };
		v.text = "shared const text"; v.nums = { 1, 2, 3, 70000 }; v.opt = 5; return v; }();
	return s;
}

static std::string runOp(unsigned kind, unsigned k, const std::string& sharedMp, const std::string& sharedJson) {
	try {
		switch (kind % 18) {
		case 0: return SaveObject<MsgPack::MsgPackArchive>(makeOuter(k));
		case 1: return SaveObject<Json::RapidJson::JsonArchive>(makeOuter(k));
		case 2: return SaveObject<Xml::PugiXml::XmlArchive>(makeOuter(k));
		case 3: { std::vector<Row> r{ {static_cast<int>(k), "a,b", 1.5}, {2, "q\"", -2.0} }; return SaveObject<Csv::CsvArchive>(r); }
		case 4: { Outer o; LoadObject<MsgPack::MsgPackArchive>(o, sharedMp); return std::to_string(o.id) + o.inner.s; }
		case 5: { Outer o; LoadObject<Json::RapidJson::JsonArchive>(o, sharedJson); return std::to_string(o.id) + o.inner.s; }
		case 6: { std::ostringstream os; auto o = makeOuter(k); SaveObject<MsgPack::MsgPackArchive>(o, os); std::istringstream is(os.str()); Outer o2; LoadObject<MsgPack::MsgPackArchive>(o2, is); return std::to_string(o2.id) + Convert::ToString(o2.name); }
		case 7: return Convert::ToString(static_cast<int>(k) * 7919) + Convert::ToString(Convert::To<int>(std::to_string(k))) + Convert::ToString(static_cast<Color>(k % 3)) + Convert::ToString(Convert::To<Color>(std::string(k % 2 ? "green" : "BLUE")));
		case 8: { auto tp = std::chrono::system_clock::time_point(std::chrono::seconds(k * 86400LL + k)); auto s = Convert::ToString(std::chrono::time_point_cast<std::chrono::seconds>(tp)); auto back = Convert::To<std::chrono::time_point<std::chrono::system_clock, std::chrono::seconds>>(s); return s + std::to_string(back.time_since_epoch().count()); }
		case 9: return Convert::To<std::string>(std::u32string(U"世界") + std::u32string(k % 5, U'\U0001F600'));
		case 10: { // validation-failing load
			auto o = makeOuter(k); o.id = 5000; auto doc = SaveObject<Json::RapidJson::JsonArchive>(o); Outer o2;
			try { LoadObject<Json::RapidJson::JsonArchive>(o2, doc); return "novalidation"; }
			catch (const ValidationException& e) { return "validation" + std::to_string(e.GetValidationErrors().size()); } }
		case 12: { // time_t wrappers (CRawTime) both ways
			const time_t tt = static_cast<time_t>(k) * 86399 + 17; auto str = Convert::ToString(CRawTime(tt));
			return str + std::to_string(static_cast<long long>(Convert::To<CRawTime>(str).Time)); }
		case 13: { // ISO durations and sub-second time points
			auto d = std::chrono::milliseconds(static_cast<long long>(k) * 1001 - 50000); auto str = Convert::ToString(d);
			auto tp = std::chrono::time_point<std::chrono::system_clock, std::chrono::milliseconds>(std::chrono::milliseconds(k * 1000003LL));
			return str + std::to_string(Convert::To<std::chrono::milliseconds>(str).count()) + Convert::ToString(tp); }
		case 14: { // wide-string fields of every width through the text archives (transcoding buffers)
			Wide w; w.a = u"шестнадцать-" + std::u16string(k % 5, u'я'); w.b = U"thirty-two-\U0001F600" + std::u32string(k % 3, U'z'); w.c = L"wide-" + std::to_wstring(k);
			auto js = SaveObject<Json::RapidJson::JsonArchive>(w); Wide w2; LoadObject<Json::RapidJson::JsonArchive>(w2, js);
			auto xs = SaveObject<Xml::PugiXml::XmlArchive>(w); Wide w3; LoadObject<Xml::PugiXml::XmlArchive>(w3, xs);
			return js + xs + Convert::ToString(w2.a) + Convert::ToString(w3.b) + Convert::ToString(w2.c); }
		case 15: { // enum names in another letter case, bool and floating-point text
			return Convert::ToString(Convert::To<Color>(std::string(k % 3 == 0 ? "RED" : k % 3 == 1 ? "gReEn" : "blue"))) + Convert::ToString(Convert::To<double>(std::to_string(k) + ".5")) +
				Convert::ToString(Convert::To<bool>(std::string(k % 2 ? "TRUE" : "false"))) + Convert::To<std::string>(std::wstring(L"w") + std::to_wstring(k)) +
				// numbers parsed from 16/32-bit strings (they are transcoded through a scratch buffer first)
				Convert::ToString(Convert::To<int>(std::u16string(u"00000000000000000") + Convert::To<std::u16string>(std::to_string(k)))) +
				Convert::ToString(Convert::To<double>(std::wstring(L"0.5e1") )) + Convert::ToString(Convert::To<int64_t>(Convert::To<std::u32string>(std::to_string(k * 77777LL)))); }
		case 16: return SaveObject<MsgPack::MsgPackArchive>(sharedSrc()) + std::to_string(k % 2);
		case 17: return (k % 2 ? SaveObject<Json::RapidJson::JsonArchive>(sharedSrc()) : SaveObject<Xml::PugiXml::XmlArchive>(sharedSrc()));
		case 11: { std::vector<Row> r; LoadObject<Csv::CsvArchive>(r, std::string("x,y,z\r\n1,\"a,b\",1.5\r\n") + std::to_string(k) + ",k,2\r\n"); return std::to_string(r.size()) + r.back().y + std::to_string(r.back().x); }
		}
	} catch (const std::exception& e) { return std::string("EXC:") + e.what(); }
	return "?";
}

int main(int argc, char** argv) {
	const unsigned threads = argc > 1 ? std::stoul(argv[1]) : 8, iters = argc > 2 ? std::stoul(argv[2]) : 500, seed = argc > 3 ? std::stoul(argv[3]) : 1;
	const std::string sharedMp = SaveObject<MsgPack::MsgPackArchive>(makeOuter(7));      // shared read-only inputs
	const std::string sharedJson = SaveObject<Json::RapidJson::JsonArchive>(makeOuter(7));
	// sequential goldens
	std::vector<std::vector<std::pair<unsigned, unsigned>>> plan(threads);
	std::vector<std::vector<std::string>> golden(threads), actual(threads);
	std::mt19937 rng(seed);
	for (unsigned t = 0; t < threads; ++t)
		for (unsigned i = 0; i < iters; ++i) { plan[t].push_back({ static_cast<unsigned>(rng()), static_cast<unsigned>(rng() % 100000) }); }
	for (unsigned t = 0; t < threads; ++t) for (auto& [kind, k] : plan[t]) golden[t].push_back(runOp(kind, k, sharedMp, sharedJson));
	std::atomic<bool> go{false};
	std::vector<std::thread> pool;
	for (unsigned t = 0; t < threads; ++t) {
		pool.emplace_back([&, t] {
			while (!go.load()) std::this_thread::yield();
			for (auto& [kind, k] : plan[t]) actual[t].push_back(runOp(kind, k, sharedMp, sharedJson));
		});
	}
	go = true;
	for (auto& th : pool) th.join();
	size_t ops = 0;
	for (unsigned t = 0; t < threads; ++t)
		for (size_t i = 0; i < golden[t].size(); ++i, ++ops)
			if (golden[t][i] != actual[t][i]) { std::cout << "mismatch thread=" << t << " op=" << i << " kind=" << plan[t][i].first % 18 << "\n"; return 1; }
	std::cout << "ok " << ops << "\n";
	return 0;
}
