// mp.obj <mem|stream> <mask;mask;…>: classes whose set of fields depends on the VALUE (conditional fields, one of them in a base
// class) saved one after the other with SaveObject<MsgPackArchive>; the map header must equal the number of entries written (C06).
//   answer: <hex of document 1>;<hex of document 2>;… (exc:<class> for a save that threw)
#include "harness.h"
#include <sstream>
#include "bitserializer/bit_serializer.h"
#include "bitserializer/msgpack_archive.h"
#include "bitserializer/types/std/vector.h"

using namespace vh;
using namespace BitSerializer;
std::string describeException(const std::exception& e);

namespace {

struct CondBase {
	unsigned mask = 0;
	template <class TArchive> void Serialize(TArchive& archive) {
		if (mask & 1u) { int b0 = 10; archive << KeyValue("b0", b0); }
	}
};
struct Cond : CondBase {
	template <class TArchive> void Serialize(TArchive& archive) {
		archive << BaseObject<CondBase>(*this);
		if (mask & 2u) { int f1 = 1; archive << KeyValue("f1", f1); }
		if (mask & 4u) { std::string f2 = "two"; archive << KeyValue("f2", f2); }
		if (mask & 8u) { bool f3 = true; archive << KeyValue("f3", f3); }
		if (mask & 16u) { std::vector<int> f4{ 1, 2 }; archive << KeyValue("f4", f4); }
		if (mask & 32u) { int f5 = -200; archive << KeyValue("f5", f5); }
	}
};

Register o1("mp.obj", [](const Tokens& t) -> std::string {
	if (t.size() != 3) throw BadOp("arity");
	const bool stream = t[1] == "stream";
	std::istringstream is(t[2]);
	std::string m, res;
	while (std::getline(is, m, ';')) {
		Cond c; c.mask = static_cast<unsigned>(std::stoul(m));
		std::string doc;
		try {
			if (stream) { std::ostringstream os; SaveObject<MsgPack::MsgPackArchive>(c, os); doc = hexBytes(os.str()); }
			else { std::string out; SaveObject<MsgPack::MsgPackArchive>(c, out); doc = hexBytes(out); }
		}
		catch (const std::exception& e) { doc = "exc:" + describeException(e); }
		if (!res.empty()) res.push_back(';');
		res += doc;
	}
	return res.empty() ? "-" : res;
});

} // namespace
