// mp.obj <mem|stream> <mask;mask;…>: classes whose set of fields depends on the VALUE (conditional fields, one of them in a base
// class) saved one after the other with SaveObject<MsgPackArchive>; the map header must equal the number of entries written (C06).
//   answer: <hex of document 1>;<hex of document 2>;… (exc:<class> for a save that threw)
#include "harness.h"
#include <sstream>
#include "bitserializer/bit_serializer.h"
#include "bitserializer/msgpack_archive.h"
#include "bitserializer/types/std/vector.h"

using namespace vh;
using namespace BitSerializer;
std::string describeException(const std::exception& e);

namespace {

struct CondBase {
	unsigned mask = 0;
	template <class TArchive> void Serialize(TArchive& archive) {
		if (mask & 1u) { int b0 = 10; archive << KeyValue("b0", b0); }
	}
};
struct Cond : CondBase {
	template <class TArchive> void Serialize(TArchive& archive) {
		archive << BaseObject<CondBase>(*this);
		if (mask & 2u) { int f1 = 1; archive << KeyValue("f1", f1); }
		if (mask & 4u) { std::string f2 = "two"; archive << KeyValue("f2", f2); }
		if (mask & 8u) { bool f3 = true; archive << KeyValue("f3", f3); }
		if (mask & 16u) { std::vector<int> f4{ 1, 2 }; archive << KeyValue("f4", f4); }
		if (mask & 32u) { int f5 = -200; archive << KeyValue("f5", f5); }
	}
};

// a class that serialises a field BEFORE its base classes and has two of them (the field counter must not count anything twice)
struct CondBase2 {
	unsigned mask2 = 0;
	template <class TArchive> void Serialize(TArchive& archive) {
		if (mask2 & 4u) { int c0 = 30; archive << KeyValue("c0", c0); }
		int c1 = 31; archive << KeyValue("c1", c1);
	}
};
struct Cond2 : CondBase, CondBase2 {
	template <class TArchive> void Serialize(TArchive& archive) {
		if (mask2 & 1u) { int pre = 5; archive << KeyValue("pre", pre); }
		archive << BaseObject<CondBase>(*this);
		if (mask2 & 8u) { std::string mid = "m"; archive << KeyValue("mid", mid); }
		archive << BaseObject<CondBase2>(*this);
		if (mask2 & 16u) { bool post = false; archive << KeyValue("post", post); }
	}
};

Register o2("mp.obj2", [](const Tokens& t) -> std::string {
	if (t.size() != 3) throw BadOp("arity");
	const bool stream = t[1] == "stream";
	std::istringstream is(t[2]);
	std::string m, res;
	while (std::getline(is, m, ';')) {
		Cond2 c; c.mask2 = static_cast<unsigned>(std::stoul(m)); c.mask = (c.mask2 & 2u) ? 1u : 0u;
		std::string doc;
		try {
			if (stream) { std::ostringstream os; SaveObject<MsgPack::MsgPackArchive>(c, os); doc = hexBytes(os.str()); }
			else { std::string out; SaveObject<MsgPack::MsgPackArchive>(c, out); doc = hexBytes(out); }
		}
		catch (const std::exception& e) { doc = "exc:" + describeException(e); }
		if (!res.empty()) res.push_back(';');
		res += doc;
	}
	return res.empty() ? "-" : res;
});

Register o1("mp.obj", [](const Tokens& t) -> std::string {
	if (t.size() != 3) throw BadOp("arity");
	const bool stream = t[1] == "stream";
	std::istringstream is(t[2]);
	std::string m, res;
	while (std::getline(is, m, ';')) {
		Cond c; c.mask = static_cast<unsigned>(std::stoul(m));
		std::string doc;
		try {
			if (stream) { std::ostringstream os; SaveObject<MsgPack::MsgPackArchive>(c, os); doc = hexBytes(os.str()); }
			else { std::string out; SaveObject<MsgPack::MsgPackArchive>(c, out); doc = hexBytes(out); }
		}
		catch (const std::exception& e) { doc = "exc:" + describeException(e); }
		if (!res.empty()) res.push_back(';');
		res += doc;
	}
	return res.empty() ? "-" : res;
});

} // namespace
