// Dump translation unit: prints the compiled-in values of named UTF constants of the current tree.
#include <cstdio>
#include "bitserializer/conversion_detail/convert_utf.h"
namespace U = BitSerializer::Convert::Utf;
template <size_t N> void arr(const char* name, const char (&a)[N]) {
	std::printf("%s = [", name);
	for (size_t i = 0; i < N; ++i) std::printf("%s%u", i ? ", " : "", static_cast<unsigned>(static_cast<unsigned char>(a[i])));
	std::printf("]\n");
}
int main() {
	arr("bomUtf8", U::Utf8::bom);
	arr("bomUtf16le", U::Utf16Le::bom);
	arr("bomUtf16be", U::Utf16Be::bom);
	arr("bomUtf32le", U::Utf32Le::bom);
	arr("bomUtf32be", U::Utf32Be::bom);
	std::printf("highSurrogatesStart = %u\n", unsigned(U::UnicodeTraits::HighSurrogatesStart));
	std::printf("highSurrogatesEnd = %u\n", unsigned(U::UnicodeTraits::HighSurrogatesEnd));
	std::printf("lowSurrogatesStart = %u\n", unsigned(U::UnicodeTraits::LowSurrogatesStart));
	std::printf("lowSurrogatesEnd = %u\n", unsigned(U::UnicodeTraits::LowSurrogatesEnd));
	std::printf("encodedStreamReaderDefaultChunk = %u\n", unsigned(U::CEncodedStreamReader<char>::chunk_size));
	return 0;
}
