// Dump translation unit: named constants of the current tree that the numeric text model depends on.
#include <cstdio>
#include <string>
#include "bitserializer/conversion_detail/convert_utf.h"
#include "bitserializer/config.h"
namespace U = BitSerializer::Convert::Utf;
template <class Ch> void mark(const char* name) {
	const Ch* m = U::Detail::GetDefaultErrorMark<Ch>();
	std::printf("%s = [", name);
	for (size_t i = 0; m[i] != 0; ++i) std::printf("%s%lu", i ? ", " : "", static_cast<unsigned long>(static_cast<std::make_unsigned_t<Ch>>(m[i])));
	std::printf("]\n");
}
int main() {
	mark<char>("defaultErrorMark8");        // what a non-transcodable unit of a wide numeric string becomes before from_chars
	mark<char16_t>("defaultErrorMark16");
	mark<char32_t>("defaultErrorMark32");
	std::printf("hasFloatFromChars = %d\n", int(BITSERIALIZER_HAS_FLOAT_FROM_CHARS));
	return 0;
}
