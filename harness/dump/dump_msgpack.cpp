// Dump translation unit: prints the compiled-in ByteCodeTable of src/msgpack/msgpack_readers.cpp (file-static,
// hence the .cpp is included) and the numeric values of MsgPack::Detail::ValueType / stream chunk size.
#include <cstdio>
#include "msgpack/msgpack_readers.cpp"
#include "common/binary_stream_reader.cpp"   // single-TU build: the stream reader needs its definitions to link

int main() {
	using VT = BitSerializer::MsgPack::Detail::ValueType;
	std::printf("byteCodeTable = [");
	for (int i = 0; i < 256; ++i) {
		const auto& e = ByteCodeTable[i];
		std::printf("%s[%u, %u, %u, %u]", i ? ", " : "", static_cast<unsigned>(e.Type), static_cast<unsigned>(e.FixedSeq),
			static_cast<unsigned>(e.DataSize), static_cast<unsigned>(e.ExtSize));
	}
	std::printf("]\n");
	std::printf("byteCodeTableSize = %u\n", static_cast<unsigned>(sizeof(ByteCodeTable) / sizeof(ByteCodeTable[0])));
	std::printf("vtUnknown = %u\n", static_cast<unsigned>(VT::Unknown));
	std::printf("vtNil = %u\n", static_cast<unsigned>(VT::Nil));
	std::printf("vtBoolean = %u\n", static_cast<unsigned>(VT::Boolean));
	std::printf("vtUnsignedInteger = %u\n", static_cast<unsigned>(VT::UnsignedInteger));
	std::printf("vtSignedInteger = %u\n", static_cast<unsigned>(VT::SignedInteger));
	std::printf("vtFloat = %u\n", static_cast<unsigned>(VT::Float));
	std::printf("vtDouble = %u\n", static_cast<unsigned>(VT::Double));
	std::printf("vtString = %u\n", static_cast<unsigned>(VT::String));
	std::printf("vtArray = %u\n", static_cast<unsigned>(VT::Array));
	std::printf("vtBinaryArray = %u\n", static_cast<unsigned>(VT::BinaryArray));
	std::printf("vtMap = %u\n", static_cast<unsigned>(VT::Map));
	std::printf("vtExt = %u\n", static_cast<unsigned>(VT::Ext));
	std::printf("vtTimestamp = %u\n", static_cast<unsigned>(VT::Timestamp));
	std::printf("binaryStreamChunkSize = %u\n", static_cast<unsigned>(BitSerializer::Detail::CBinaryStreamReader::chunk_size));
	return 0;
}
