// Named constants of the two text validators (validators.h). The tables and limits of Email::operator() are
// function-local (`allowedLocalPartChars`, `localPartMaxSize`, `domainPartMaxSize`, `domainPartLabelMaxSize`), so they
// are read off the COMPILED functor by probing: the set of units accepted in the middle of the local part / of a label,
// the largest accepted size of each part; for PhoneNumber the defaults of the constructor and the default texts.
#include <cstdio>
#include <cstdint>
#include <string>
#include "bitserializer/bit_serializer.h"

using namespace BitSerializer;

static void str(const char* name, const std::optional<std::string>& v) {
	std::printf("%s = \"%s\"\n", name, v ? v->c_str() : "<passed>");
}

template <class F> static void accepted(const char* name, F probe) {
	std::printf("%s = [", name);
	bool first = true;
	for (int c = 0; c < 256; ++c) {
		if (probe(static_cast<char>(c))) { std::printf(first ? "%d" : ", %d", c); first = false; }
	}
	std::printf("]\n");
}

template <class F> static void largest(const char* name, F probe) {
	unsigned best = 0;
	for (unsigned n = 1; n <= 600; ++n) if (probe(n)) best = n;
	std::printf("%s = %u\n", name, best);
}

int main() {
	const Email email;
	accepted("emailLocalAccepted", [&](char c) { return !email(std::string("a") + c + "b@ex.com", true).has_value(); });
	accepted("emailLocalFirstAccepted", [&](char c) { return !email(std::string(1, c) + "b@ex.com", true).has_value(); });
	accepted("emailLabelMidAccepted", [&](char c) { return !email(std::string("ab@e") + c + "x.com", true).has_value(); });
	accepted("emailLabelFirstAccepted", [&](char c) { return !email(std::string("ab@ex.") + c + "om", true).has_value(); });
	accepted("emailLabelLastAccepted", [&](char c) { return !email(std::string("ab@ex.co") + c, true).has_value(); });
	largest("emailLocalMax", [&](unsigned n) { return !email(std::string(n, 'a') + "@ex.com", true).has_value(); });
	largest("emailLabelMax", [&](unsigned n) { return !email("a@" + std::string(n, 'b') + ".com", true).has_value(); });
	largest("emailDomainMax", [&](unsigned n) {
		std::string d;                                   // labels of 1 unit: "b.b.b...": n units in all (n odd)
		for (unsigned k = 0; k < n; ++k) d.push_back(k % 2 ? '.' : 'b');
		return n % 2 == 1 && !email("a@" + d, true).has_value();
	});
	str("emailMsg", email(std::string("x"), true));

	const PhoneNumber phone;                             // the defaults of the constructor
	largest("phoneDefaultMax", [&](unsigned n) { return !phone("+" + std::string(n, '1'), true).has_value(); });
	{
		unsigned least = 0;
		for (unsigned n = 600; n >= 1; --n) if (!phone("+" + std::string(n, '1'), true).has_value()) least = n;
		std::printf("phoneDefaultMin = %u\n", least);
	}
	std::printf("phoneDefaultPlusRequired = %u\n", phone(std::string("12345678"), true).has_value() ? 1u : 0u);
	accepted("phoneMidAccepted", [&](char c) { return !PhoneNumber(6, 12)(std::string("+12") + c + "3456", true).has_value(); });
	str("phoneMsgDashes", PhoneNumber(1, 9)(std::string("+-1"), true));
	str("phoneMsgClosing", PhoneNumber(1, 9)(std::string("+1)"), true));
	str("phoneMsgChars", PhoneNumber(1, 9)(std::string("+1a"), true));
	str("phoneMsgPlus", PhoneNumber(1, 9)(std::string("1"), true));
	str("phoneMsgUnclosed", PhoneNumber(1, 9)(std::string("+(1"), true));
	str("phoneMsgExact_4", PhoneNumber(4, 4)(std::string("+1"), true));
	str("phoneMsgRange_7_15", phone(std::string("+1"), true));
	return 0;
}
