// Dump translation unit: prints the compiled-in values of named CSV constants of the current tree.
#include <cstdio>
#include "bitserializer/csv_archive.h"
#include "bitserializer/serialization_detail/serialization_options.h"
int main() {
	using T = BitSerializer::Csv::Detail::CsvArchiveTraits;
	std::printf("allowedSeparators = [");
	bool first = true;
	for (const char c : T::allowed_separators) {
		std::printf("%s%u", first ? "" : ", ", static_cast<unsigned>(static_cast<unsigned char>(c)));
		first = false;
	}
	std::printf("]\n");
	std::printf("defaultSeparator = %u\n", static_cast<unsigned>(static_cast<unsigned char>(BitSerializer::SerializationOptions().valuesSeparator)));
	std::printf("pathSeparator = %u\n", static_cast<unsigned>(static_cast<unsigned char>(T::path_separator)));
	return 0;
}
