// Named constants of the validation area: default messages of the built-in validators (as produced by the
// compiled functors) and the default of SerializationOptions::maxValidationErrors.
#include <cstdio>
#include <cstdint>
#include <string>
#include "bitserializer/bit_serializer.h"

using namespace BitSerializer;

static void str(const char* name, const std::optional<std::string>& v) {
	std::printf("%s = \"%s\"\n", name, v ? v->c_str() : "<passed>");
}

int main() {
	str("requiredMsg", Required()(0, false));
	str("rangeMsg_1_10", Range<int64_t>(1, 10)(11, true));
	str("rangeMsg_m5_5", Range<int64_t>(-5, 5)(-6, true));
	str("minSizeMsg_2", MinSize(2)(std::string("a"), true));
	str("maxSizeMsg_5", MaxSize(5)(std::string("abcdef"), true));
	str("emailMsg", Email()(std::string("x"), true));
	std::printf("maxValidationErrorsDefault = %u\n", static_cast<unsigned>(SerializationOptions().maxValidationErrors));
	return 0;
}
