// Dump of the constants of the JSON / XML adapters that the Lean model names:
// the element names the pugixml adapter gives to array items and to the default root, obtained by running the
// real Save path (they are string literals inside methods, not named tables), and the archive traits.
#include <cstdio>
#include <string>
#include <vector>
#include "bitserializer/bit_serializer.h"
#include "bitserializer/pugixml_archive.h"
#include "bitserializer/rapidjson_archive.h"
#include "bitserializer/types/std/vector.h"

using namespace BitSerializer;
using Xml::PugiXml::XmlArchive;
using Json::RapidJson::JsonArchive;

struct Empty { template <class A> void Serialize(A&) {} };

static void bytes(const char* name, const std::string& s) {
	std::printf("%s = [", name);
	for (size_t i = 0; i < s.size(); ++i) std::printf("%s%u", i ? ", " : "", static_cast<unsigned>(static_cast<unsigned char>(s[i])));
	std::printf("]\n");
}

int main() {
	pugi::xml_document doc;
	{
		std::vector<int> v{1};
		const std::string s = SaveObject<XmlArchive>(v);
		doc.load_string(s.c_str());
		bytes("xml_root_array", doc.first_child().name());
		bytes("xml_item_value", doc.first_child().first_child().name());
	}
	{
		std::vector<std::vector<int>> v{{1}};
		const std::string s = SaveObject<XmlArchive>(v);
		doc.load_string(s.c_str());
		bytes("xml_item_array", doc.first_child().first_child().name());
	}
	{
		std::vector<Empty> v(1);
		const std::string s = SaveObject<XmlArchive>(v);
		doc.load_string(s.c_str());
		bytes("xml_item_object", doc.first_child().first_child().name());
	}
	{
		Empty e;
		const std::string s = SaveObject<XmlArchive>(e);
		doc.load_string(s.c_str());
		bytes("xml_root_object", doc.first_child().name());
	}
	std::printf("json_path_separator = %d\n", static_cast<int>(JsonArchive::path_separator));
	std::printf("xml_path_separator = %d\n", static_cast<int>(XmlArchive::path_separator));
	std::printf("json_is_binary = %d\n", JsonArchive::is_binary ? 1 : 0);
	std::printf("xml_is_binary = %d\n", XmlArchive::is_binary ? 1 : 0);
	return 0;
}
