// Dump translation unit: prints the compiled-in values of the named chrono-conversion constants of the current tree.
#include <cstdio>
#include "bitserializer/conversion_detail/convert_chrono.h"
namespace D = BitSerializer::Convert::Detail;
int main() {
	std::printf("daysInMonth = [");
	for (size_t i = 0; i < sizeof(D::DaysInMonth) / sizeof(D::DaysInMonth[0]); ++i) std::printf("%s%d", i ? ", " : "", D::DaysInMonth[i]);
	std::printf("]\n");
	std::printf("utcBufSize = %zu\n", static_cast<size_t>(D::UtcBufSize));
	return 0;
}
