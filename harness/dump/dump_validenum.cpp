// The enum name table of the C17 ops as the LIBRARY holds it: harness/valid_enum.h registers ValTone through REGISTER_ENUM;
// this unit prints what Convert::Detail::EnumRegistry<ValTone> then contains (names as byte lists and underlying values, in
// registration order), and what the compiled conversion answers for the probes below (index of the enumerator found,
// `toneCount` = not found):
//   toneFindExact / toneFindUpper / toneFindLower   every registered name as registered / upper-cased / lower-cased
//   toneFindUnknown                                  "" "Lo" "Lowx" "low " "Lov" "Hig" "Highh" "L\xf6w"
#include <cstdio>
#include <cctype>
#include <string>
#include <vector>
#include "bitserializer/convert.h"
#include "valid_enum.h"

using Registry = BitSerializer::Convert::Detail::EnumRegistry<ValTone>;

static size_t find(const std::string& name) {
	try {
		const ValTone v = BitSerializer::Convert::To<ValTone>(std::string_view(name));
		size_t k = 0;
		for (auto it = Registry::cbegin(); it != Registry::cend(); ++it, ++k) if (it->Value == v) return k;
		return Registry::size() + 1;        // a value that is not in the table
	}
	catch (const std::invalid_argument&) { return Registry::size(); }
}

static void list(const char* name, const std::vector<size_t>& v) {
	std::printf("%s = [", name);
	for (size_t i = 0; i < v.size(); ++i) std::printf("%s%zu", i ? ", " : "", v[i]);
	std::printf("]\n");
}

int main() {
	std::printf("toneCount = %zu\n", Registry::size());
	std::printf("toneNames = [");
	bool first = true;
	for (auto it = Registry::cbegin(); it != Registry::cend(); ++it) {
		std::printf("%s[", first ? "" : ", ");
		first = false;
		for (size_t i = 0; i < it->Name.size(); ++i) std::printf("%s%u", i ? ", " : "", static_cast<unsigned>(static_cast<unsigned char>(it->Name[i])));
		std::printf("]");
	}
	std::printf("]\n");
	std::vector<size_t> values, exact, upper, lower, unknown;
	for (auto it = Registry::cbegin(); it != Registry::cend(); ++it) {
		values.push_back(static_cast<size_t>(it->Value));
		std::string n(it->Name), u(n), l(n);
		for (auto& c : u) c = static_cast<char>(std::toupper(static_cast<unsigned char>(c)));
		for (auto& c : l) c = static_cast<char>(std::tolower(static_cast<unsigned char>(c)));
		exact.push_back(find(n)); upper.push_back(find(u)); lower.push_back(find(l));
	}
	for (const char* s : { "", "Lo", "Lowx", "low ", "Lov", "Hig", "Highh", "L\xf6w" }) unknown.push_back(find(s));
	list("toneValues", values);
	list("toneFindExact", exact);
	list("toneFindUpper", upper);
	list("toneFindLower", lower);
	list("toneFindUnknown", unknown);
	std::printf("toneInitial = %u\n", static_cast<unsigned>(kValToneInitial));
	return 0;
}
