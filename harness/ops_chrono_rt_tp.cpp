// Chrono ops (see chrono_ops.h for the protocol): iso.rt_tp
#include "chrono_ops.h"

using namespace vh_chrono;

namespace {

Register r13("iso.rt_tp", [](const Tokens& t) -> std::string {
	if (t.size() != 3) throw BadOp("arity");
	return withType(t[1], [&](auto tag) -> std::string {
		using D = typename decltype(tag)::type;
		if constexpr (canPrintTp<D>) {
			using TP = std::chrono::time_point<std::chrono::system_clock, D>;
			const TP tp{ D(parseCount<typename D::rep>(t[2])) };
			const std::string text = C::ToString(tp);
			return showText(text) + " " + secondHalf([&] { return "ok " + showCount(C::To<TP>(text).time_since_epoch().count()); });
		} else { throw BadOp("not instantiable"); }
	});
});

} // namespace
