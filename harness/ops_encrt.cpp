// enc.rt: a table saved through the text archives' STREAM entry points in each of the five UTF encodings (with / without BOM) and loaded
// back with automatic detection; the encoded size is steered to a multiple of the 256-byte chunk (+delta) by padding the last text field.
//   enc.rt <csv|json|xml> <utf8|utf16le|utf16be|utf32le|utf32be> <bom 0|1> <seed> <delta: n|-1|0|1>
//   answer: same <encoded size> | differ … | exc-save:<class> | exc-load:<class> <size>
#include "harness.h"
#include <sstream>
#include <random>
#include "bitserializer/bit_serializer.h"
#include "bitserializer/csv_archive.h"
#include "bitserializer/rapidjson_archive.h"
#include "bitserializer/pugixml_archive.h"
#include "bitserializer/types/std/vector.h"

using namespace vh;
using namespace BitSerializer;
std::string describeException(const std::exception& e);

namespace {

struct RowE {
	int x = 0; std::string y;
	template <class TArchive> void Serialize(TArchive& archive) { archive << KeyValue("x", x) << KeyValue("y", y); }
	bool operator==(const RowE& o) const { return x == o.x && y == o.y; }
};

template <class TArchive>
std::string run(const Tokens& t) {
	SerializationOptions opts;
	size_t unit = 1, bomLen = 0;
	if (t[2] == "utf8") { opts.streamOptions.encoding = Convert::Utf::UtfType::Utf8; unit = 1; bomLen = 3; }
	else if (t[2] == "utf16le") { opts.streamOptions.encoding = Convert::Utf::UtfType::Utf16le; unit = 2; bomLen = 2; }
	else if (t[2] == "utf16be") { opts.streamOptions.encoding = Convert::Utf::UtfType::Utf16be; unit = 2; bomLen = 2; }
	else if (t[2] == "utf32le") { opts.streamOptions.encoding = Convert::Utf::UtfType::Utf32le; unit = 4; bomLen = 4; }
	else if (t[2] == "utf32be") { opts.streamOptions.encoding = Convert::Utf::UtfType::Utf32be; unit = 4; bomLen = 4; }
	else throw BadOp("encoding");
	opts.streamOptions.writeBom = t[3] == "1";
	if (!opts.streamOptions.writeBom) bomLen = 0;
	std::mt19937 g(static_cast<unsigned>(std::stoul(t[4])));
	static const char* const pieces[] = { "a", "plain", "with,comma", "q\"uote", "\xC3\xA9", "\xE2\x82\xAC", "\xF0\x9F\x98\x80", "x y", "0", "-1" };
	std::vector<RowE> value(1 + g() % 9);
	for (auto& r : value) { r.x = static_cast<int>(g() % 100000) - 500; r.y = "v"; for (unsigned i = 0, n = g() % 4; i < n; ++i) r.y += pieces[g() % 10]; r.y += "w"; }
	std::string saved;
	try {
		{ std::ostringstream os; SaveObject<TArchive>(value, os, opts); saved = os.str(); }
		if (t[5] != "n") {
			const long delta = std::stol(t[5]);
			const size_t payload = saved.size() - bomLen;
			size_t want = (payload / 256 + 1 + g() % 2) * 256;
			while ((want - payload) % unit != 0) ++want;        // cannot happen (payload is a multiple of the unit size), kept for safety
			value.back().y += std::string((want - payload) / unit, 'p');
			if (delta == 1) value.back().y += "p"; else if (delta == -1) value.back().y.pop_back();
			std::ostringstream os; SaveObject<TArchive>(value, os, opts); saved = os.str();
		}
	}
	catch (const std::exception& e) { return "exc-save:" + describeException(e); }
	std::vector<RowE> loaded;
	try { std::istringstream is(saved); LoadObject<TArchive>(loaded, is); }
	catch (const std::exception& e) { return "exc-load:" + describeException(e) + " " + std::to_string(saved.size()); }
	if (loaded == value) return "same " + std::to_string(saved.size());
	return "differ " + std::to_string(saved.size()) + " rows " + std::to_string(value.size()) + "->" + std::to_string(loaded.size());
}

Register e1("enc.rt", [](const Tokens& t) -> std::string {
	if (t.size() != 6) throw BadOp("arity");
	if (t[1] == "csv") return run<Csv::CsvArchive>(t);
	if (t[1] == "json") return run<Json::RapidJson::JsonArchive>(t);
	if (t[1] == "xml") return run<Xml::PugiXml::XmlArchive>(t);
	throw BadOp("archive");
});

} // namespace
