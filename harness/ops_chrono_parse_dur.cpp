// Chrono ops (see chrono_ops.h for the protocol): iso.parse_dur
#include "chrono_ops.h"

using namespace vh_chrono;

namespace {

Register r4("iso.parse_dur", [](const Tokens& t) -> std::string {
	if (t.size() != 4) throw BadOp("arity");
	return withType(t[1], [&](auto tag) -> std::string {
		using D = typename decltype(tag)::type;
		const D d = parseWith<D>(t[2], t[3]);
		return "ok " + showCount(d.count());
	});
});

} // namespace
