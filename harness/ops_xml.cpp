// xml.save / xml.load : the pugixml archive adapter (include/bitserializer/pugixml_archive.h) driven through
// SaveObject/LoadObject with dynamic model values (see dyn_model.h).
//
//   xml.save <keys> <out> <cfg> <root|-> <schema> <value>                      -> ok <hex of the produced bytes> | err <class>
//   xml.load <keys> <in:str|stream> <pol> <root|-> <schema> <hex of the bytes>  -> ok <value> | err <class>
//   <root> = hex of an explicit root element name (KeyValue at root level), '-' = default names (<array>, <root>)
#include "dyn_model.h"
#include "bitserializer/pugixml_archive.h"
#include <sstream>
#include <tuple>
#include "bitserializer/types/std/tuple.h"

using namespace vh;
using namespace vh::dyn;
using BitSerializer::Xml::PugiXml::XmlArchive;

namespace {

Register x1("xml.save", [](const Tokens& t) -> std::string {
	if (t.size() != 7) throw BadOp("arity");
	applyKeys(t[1]);
	BitSerializer::SerializationOptions options;
	const bool stream = applyOut(options, t[2]);
	applyCfg(options, t[3]);
	const bool keyed = t[4] != "-";
	const std::string rootKey = keyed ? parseBytes(t[4]) : std::string();
	const auto schema = parseSchema(t[5]);
	if (schema->k == Schema::Leaf || schema->k == Schema::Opt) throw BadOp("the XML root scope has no values");
	Dyn value = parseValue(schema.get(), t[6]);
	std::string out;
	if (stream) {
		std::ostringstream os;
		if (keyed) { if (useCStrKeys()) BitSerializer::SaveObject<XmlArchive>(BitSerializer::KeyValue(rootKey.c_str(), value), os, options);
		             else BitSerializer::SaveObject<XmlArchive>(BitSerializer::KeyValue(rootKey, value), os, options); }
		else BitSerializer::SaveObject<XmlArchive>(value, os, options);
		out = os.str();
	} else {
		if (keyed) { if (useCStrKeys()) BitSerializer::SaveObject<XmlArchive>(BitSerializer::KeyValue(rootKey.c_str(), value), out, options);
		             else BitSerializer::SaveObject<XmlArchive>(BitSerializer::KeyValue(rootKey, value), out, options); }
		else BitSerializer::SaveObject<XmlArchive>(value, out, options);
	}
	return "ok " + hexBytes(out);
});

Register x2("xml.load", [](const Tokens& t) -> std::string {
	if (t.size() != 7) throw BadOp("arity");
	applyKeys(t[1]);
	BitSerializer::SerializationOptions options;
	applyPol(options, t[3]);
	const bool keyed = t[4] != "-";
	const std::string rootKey = keyed ? parseBytes(t[4]) : std::string();
	const auto schema = parseSchema(t[5]);
	if (schema->k == Schema::Leaf || schema->k == Schema::Opt) throw BadOp("the XML root scope has no values");
	const std::string doc = parseBytes(t[6]);
	Dyn value(schema.get());
	if (t[2] == "stream") {
		std::istringstream is(doc);
		if (keyed) { if (useCStrKeys()) BitSerializer::LoadObject<XmlArchive>(BitSerializer::KeyValue(rootKey.c_str(), value), is, options);
		             else BitSerializer::LoadObject<XmlArchive>(BitSerializer::KeyValue(rootKey, value), is, options); }
		else BitSerializer::LoadObject<XmlArchive>(value, is, options);
	} else if (t[2] == "str") {
		if (keyed) { if (useCStrKeys()) BitSerializer::LoadObject<XmlArchive>(BitSerializer::KeyValue(rootKey.c_str(), value), doc, options);
		             else BitSerializer::LoadObject<XmlArchive>(BitSerializer::KeyValue(rootKey, value), doc, options); }
		else BitSerializer::LoadObject<XmlArchive>(value, doc, options);
	} else throw BadOp("in");
	return "ok " + printValue(value);
});

// xml.tuple <pol> <hex of the document bytes> : std::tuple<int32_t, int32_t> through types/std/tuple.h, which reads one array item per
// tuple element WITHOUT asking IsEnd() (relies on OutOfRange from the array scope)  -> ok <a>,<b> | err <class>
Register x3("xml.tuple", [](const Tokens& t) -> std::string {
	if (t.size() != 3) throw BadOp("arity");
	BitSerializer::SerializationOptions options;
	applyPol(options, t[1]);
	const std::string doc = parseBytes(t[2]);
	std::tuple<int32_t, int32_t> value{kSentinel, kSentinel};
	BitSerializer::LoadObject<XmlArchive>(value, doc, options);
	return "ok " + std::to_string(std::get<0>(value)) + "," + std::to_string(std::get<1>(value));
});

} // namespace
