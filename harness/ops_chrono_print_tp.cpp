// Chrono ops (see chrono_ops.h for the protocol): iso.print_tp, iso.print_days, iso.print_raw, iso.print_tm
#include "chrono_ops.h"

using namespace vh_chrono;

namespace {

Register r1("iso.print_tp", [](const Tokens& t) -> std::string {
	if (t.size() != 3) throw BadOp("arity");
	return withType(t[1], [&](auto tag) -> std::string {
		using D = typename decltype(tag)::type;
		if constexpr (canPrintTp<D>) {
			const std::chrono::time_point<std::chrono::system_clock, D> tp{ D(parseCount<typename D::rep>(t[2])) };
			return showText(C::ToString(tp));
		} else { throw BadOp("not instantiable"); }
	});
});

Register r17("iso.print_days", [](const Tokens& t) -> std::string {
	if (t.size() != 4) throw BadOp("arity");
	return withType(t[1], [&](auto tag) -> std::string {
		using D = typename decltype(tag)::type;
		if constexpr (canPrintTp<D>) {
			using TP = std::chrono::time_point<std::chrono::system_clock, D>;
			using R = typename D::rep;
			const long long first = parseCount<int64_t>(t[2]);
			const long long n = parseCount<int64_t>(t[3]);
			if (n < 1 || n > 100000) throw BadOp("n");
			constexpr long long perDay = 86400LL * D::period::den / D::period::num;
			std::string out = "ok ";
			for (long long i = 0; i < n; ++i) {
				const __int128 c = static_cast<__int128>(first + i) * perDay;
				if (c < static_cast<__int128>(std::numeric_limits<R>::min()) || c > static_cast<__int128>(std::numeric_limits<R>::max())) throw BadOp("range");
				if (i) out.push_back(',');
				out += C::ToString(TP{ D(static_cast<R>(c)) });
			}
			return out;
		} else { throw BadOp("not instantiable"); }
	});
});

Register r5("iso.print_raw", [](const Tokens& t) -> std::string {
	if (t.size() != 2) throw BadOp("arity");
	return showText(C::ToString(BS::CRawTime(static_cast<time_t>(parseCount<int64_t>(t[1])))));
});

Register r7("iso.print_tm", [](const Tokens& t) -> std::string {
	if (t.size() != 7) throw BadOp("arity");
	std::tm tm{};
	tm.tm_year = parseCount<int32_t>(t[1]);
	tm.tm_mon = parseCount<int32_t>(t[2]);
	tm.tm_mday = parseCount<int32_t>(t[3]);
	tm.tm_hour = parseCount<int32_t>(t[4]);
	tm.tm_min = parseCount<int32_t>(t[5]);
	tm.tm_sec = parseCount<int32_t>(t[6]);
	return showText(C::ToString(tm));
});

} // namespace
