// The registered enum of the C17 ops (val.load / val.loadt): shared by harness/ops_valid.cpp (field `e` of Flat) and by
// harness/dump/dump_validenum.cpp (which prints what the library's EnumRegistry holds after this registration).
// Global scope, outside namespace BitSerializer (REGISTER_ENUM needs a plain identifier).
#pragma once
#include "bitserializer/convert.h"

enum class ValTone { Low, Mid, High };
REGISTER_ENUM(ValTone, {
	{ ValTone::Low, "Low" },
	{ ValTone::Mid, "Mid" },
	{ ValTone::High, "High" }
})

// initial value of the member `e` (what the field holds when it is not loaded)
constexpr ValTone kValToneInitial = ValTone::Mid;
