// mp.scope: drive the real MsgPack read scopes (root/object/array/binary) with a request history, then Finalize().
// The document is given as TOKENS and encoded here by an independent mini-encoder.
//   tokens: n t f i<dec> d<hex16> s<hex> b<hex> a<n> m<n>
//           x<type dec>:<hex payload>   ext value (most compact of fixext1/2/4/8/16, ext8/16/32; type -1 is written as T)
//           T<sec>:<ns>                 timestamp = ext type -1: timestamp32 (ns = 0, sec < 2^32), timestamp64 (sec < 2^34),
//                                       else timestamp96 as the SPECIFICATION lays it out (ns:uint32, sec:int64)
//   requests: … n=x / g<key>=x (target CBinTimestamp), keys may be T<sec>:<ns>;
//           B (array/root) / B<key> (object): OpenBinaryScope; inside it r = SerializeValue(byte), e = IsEnd, c = close
#include "harness.h"
#include <sstream>
#include <cstring>
#include "bitserializer/bit_serializer.h"
#include "bitserializer/msgpack_archive.h"
#include "bitserializer/types/std/tuple.h"

using namespace vh;
using namespace BitSerializer;
namespace MP = BitSerializer::MsgPack::Detail;
using BitSerializer::Detail::CBinTimestamp;

std::string describeException(const std::exception& e);

namespace {

void be(std::string& o, uint64_t v, int n) { for (int i = n - 1; i >= 0; --i) o.push_back(static_cast<char>((v >> (8 * i)) & 0xFF)); }

void encodeTok(std::string& o, const std::string& t) {
	if (t == "n") { o.push_back('\xc0'); return; }
	if (t == "t") { o.push_back('\xc3'); return; }
	if (t == "f") { o.push_back('\xc2'); return; }
	const std::string body = t.substr(1);
	switch (t[0]) {
	case 'i': {
		const long long v = body[0] == '-' ? std::stoll(body) : 0;
		if (v >= 0) {
			const auto u = static_cast<uint64_t>(std::stoull(body));
			if (u < 128) o.push_back(static_cast<char>(u));
			else if (u < 256) { o.push_back('\xcc'); be(o, u, 1); }
			else if (u < 65536) { o.push_back('\xcd'); be(o, u, 2); }
			else if (u < 4294967296ULL) { o.push_back('\xce'); be(o, u, 4); }
			else { o.push_back('\xcf'); be(o, u, 8); }
		} else {
			if (v >= -32) o.push_back(static_cast<char>(v));
			else if (v >= -128) { o.push_back('\xd0'); be(o, static_cast<uint64_t>(v), 1); }
			else if (v >= -32768) { o.push_back('\xd1'); be(o, static_cast<uint64_t>(v), 2); }
			else if (v >= -2147483648LL) { o.push_back('\xd2'); be(o, static_cast<uint64_t>(v), 4); }
			else { o.push_back('\xd3'); be(o, static_cast<uint64_t>(v), 8); }
		}
		return;
	}
	case 'd': { o.push_back('\xcb'); be(o, std::stoull(body, nullptr, 16), 8); return; }
	case 's': {
		const std::string s = parseBytes(body);
		if (s.size() < 32) o.push_back(static_cast<char>(0xa0 | s.size()));
		else if (s.size() < 256) { o.push_back('\xd9'); be(o, s.size(), 1); }
		else { o.push_back('\xda'); be(o, s.size(), 2); }
		o += s; return;
	}
	case 'b': {
		const std::string s = parseBytes(body);
		if (s.size() < 256) { o.push_back('\xc4'); be(o, s.size(), 1); } else { o.push_back('\xc5'); be(o, s.size(), 2); }
		o += s; return;
	}
	case 'x': {
		const auto colon = body.find(':');
		if (colon == std::string::npos) throw BadOp("ext tok");
		const long ty = std::stol(body.substr(0, colon));
		if (ty < -128 || ty > 127 || ty == -1) throw BadOp("ext type");       // type -1 (timestamp) is the token T
		const std::string p = parseBytes(body.substr(colon + 1));
		switch (p.size()) {
		case 1: o.push_back('\xd4'); break;
		case 2: o.push_back('\xd5'); break;
		case 4: o.push_back('\xd6'); break;
		case 8: o.push_back('\xd7'); break;
		case 16: o.push_back('\xd8'); break;
		default:
			if (p.size() < 256) { o.push_back('\xc7'); be(o, p.size(), 1); }
			else if (p.size() < 65536) { o.push_back('\xc8'); be(o, p.size(), 2); }
			else { o.push_back('\xc9'); be(o, p.size(), 4); }
		}
		o.push_back(static_cast<char>(static_cast<signed char>(ty)));
		o += p; return;
	}
	case 'T': {
		const auto colon = body.find(':');
		if (colon == std::string::npos) throw BadOp("ts tok");
		const long long sec = std::stoll(body.substr(0, colon));
		const unsigned long long ns = std::stoull(body.substr(colon + 1));
		if (ns > 0xFFFFFFFFULL) throw BadOp("ts ns");
		if (sec >= 0 && sec < (1LL << 32) && ns == 0) { o.push_back('\xd6'); o.push_back('\xff'); be(o, static_cast<uint64_t>(sec), 4); }
		else if (sec >= 0 && sec < (1LL << 34) && ns < (1ULL << 30)) { o.push_back('\xd7'); o.push_back('\xff'); be(o, (ns << 34) | static_cast<uint64_t>(sec), 8); }
		else { o.push_back('\xc7'); o.push_back('\x0c'); o.push_back('\xff'); be(o, ns, 4); be(o, static_cast<uint64_t>(sec), 8); }
		return;
	}
	case 'a': { const auto n = std::stoul(body); if (n < 16) o.push_back(static_cast<char>(0x90 | n)); else { o.push_back('\xdc'); be(o, n, 2); } return; }
	case 'm': { const auto n = std::stoul(body); if (n < 16) o.push_back(static_cast<char>(0x80 | n)); else { o.push_back('\xde'); be(o, n, 2); } return; }
	}
	throw BadOp("tok");
}

struct Run {
	std::vector<std::string> reqs;
	size_t i = 0;
	std::vector<std::string> out;

	static std::string hexStr(std::string_view s) { return hexBytes(std::string(s)); }

	template <class TScope, class... TKey>
	void scalar(TScope& scope, const std::string& ty, const TKey&... key) {
		bool ok = false;
		std::string v;
		if (ty == "i") { int64_t x = 0x5A5A; ok = scope.SerializeValue(key..., x); v = "i" + std::to_string(x); }
		else if (ty == "b") { bool x = false; ok = scope.SerializeValue(key..., x); v = x ? "t" : "f"; }
		else if (ty == "s") { std::string_view x; ok = scope.SerializeValue(key..., x); v = "s" + hexStr(x); }
		else if (ty == "d") { double x = 0; ok = scope.SerializeValue(key..., x); uint64_t bits; std::memcpy(&bits, &x, 8); char buf[20]; std::snprintf(buf, sizeof buf, "d%016llx", static_cast<unsigned long long>(bits)); v = buf; }
		else if (ty == "n") { std::nullptr_t x = nullptr; ok = scope.SerializeValue(key..., x); v = "n"; }
		else if (ty == "x") { CBinTimestamp x(0x5A5A, 0x5A); ok = scope.SerializeValue(key..., x); v = std::to_string(x.Seconds) + ":" + std::to_string(x.Nanoseconds); }
		else throw BadOp("ty");
		out.push_back(ok ? "T" + v : "F");
	}

	template <class TScope>
	void keyed(TScope& scope, const std::string& key, const std::function<void(TScope&, const std::string&, int64_t, bool)>& fn) {
		if (key[0] == 's') fn(scope, parseBytes(key.substr(1)), 0, true);
		else fn(scope, std::string(), std::stoll(key.substr(1)), false);
	}

	static CBinTimestamp tsKey(const std::string& key) {
		const auto colon = key.find(':');
		if (colon == std::string::npos) throw BadOp("ts key");
		return CBinTimestamp(std::stoll(key.substr(1, colon - 1)), static_cast<int32_t>(std::stol(key.substr(colon + 1))));
	}

	// call fn(key) with the key converted to the C++ type the request names: s<hex> string, i int64, j int32, u uint64, T timestamp
	template <class TFn>
	static void withKey(const std::string& key, TFn&& fn) {
		if (key.empty()) throw BadOp("key");
		if (key[0] == 's' || key[0] == 'c') fn(parseBytes(key.substr(1)));      // (the char-buffer form is used by the scalar requests only)
		else if (key[0] == 'j') fn(static_cast<int32_t>(std::stol(key.substr(1))));
		else if (key[0] == 'u') fn(static_cast<uint64_t>(std::stoull(key.substr(1))));
		else if (key[0] == 'T') fn(tsKey(key));
		else if (key[0] == 'i') fn(static_cast<int64_t>(std::stoll(key.substr(1))));
		else throw BadOp("key");
	}

	template <class TObj> void objectLoop(TObj& scope);
	template <class TArr> void arrayLoop(TArr& scope);
	template <class TBin> void binaryLoop(TBin& scope);
};

// requests inside a binary scope: r = SerializeValue(one byte; unsigned char and char targets alternate), e = IsEnd, c = close
template <class TBin>
void Run::binaryLoop(TBin& scope) {
	static const char* d = "0123456789abcdef";
	while (i < reqs.size()) {
		const std::string r = reqs[i++];
		if (r == "c") return;
		if (r == "e") { out.push_back(scope.IsEnd() ? "Y" : "N"); }
		else if (r == "r") {
			unsigned char b = 0x5A;
			bool ok;
			if (i % 2) { ok = scope.SerializeValue(b); } else { char c = 0x5A; ok = scope.SerializeValue(c); b = static_cast<unsigned char>(c); }
			out.push_back(ok ? std::string("T") + d[b >> 4] + d[b & 15] : "F");
		}
		else throw BadOp("req in binary");
	}
	throw BadOp("unclosed");
}

template <class TArr>
void Run::arrayLoop(TArr& scope) {
	while (i < reqs.size()) {
		const std::string r = reqs[i++];
		if (r == "c") return;
		if (r == "e") { out.push_back(scope.IsEnd() ? "Y" : "N"); }
		else if (r == "a") {
			auto child = scope.OpenArrayScope(0);
			if (child) { out.push_back("P" + std::to_string(child->GetEstimatedSize())); arrayLoop(*child); child.reset(); out.push_back("C"); }
			else out.push_back("F");
		}
		else if (r == "o") {
			auto child = scope.OpenObjectScope(0);
			if (child) { out.push_back("P" + std::to_string(child->GetEstimatedSize())); objectLoop(*child); child.reset(); out.push_back("C"); }
			else out.push_back("F");
		}
		else if (r == "B") {
			auto child = scope.OpenBinaryScope(0);
			if (child) { out.push_back("P" + std::to_string(child->GetEstimatedSize())); binaryLoop(*child); child.reset(); out.push_back("C"); }
			else out.push_back("F");
		}
		else if (r.rfind("n=", 0) == 0) scalar(scope, r.substr(2));
		else throw BadOp("req in array");
	}
	throw BadOp("unclosed");
}

template <class TObj>
void Run::objectLoop(TObj& scope) {
	while (i < reqs.size()) {
		const std::string r = reqs[i++];
		if (r == "c") return;
		if (r == "v") {
			std::string ks;
			scope.VisitKeys([&ks](auto&& key) {
				using T = std::decay_t<decltype(key)>;
				if (!ks.empty()) ks.push_back(',');
				if constexpr (std::is_same_v<T, std::string_view>) ks += "s" + hexStr(key);
				else if constexpr (std::is_integral_v<T>) ks += "i" + std::to_string(key);
				else if constexpr (std::is_same_v<T, CBinTimestamp>) ks += "T" + std::to_string(key.Seconds) + ":" + std::to_string(key.Nanoseconds);
				else ks += "?";
			});
			out.push_back("K" + ks);
		}
		else if (r[0] == 'g') {
			const auto eq = r.find('=');
			const std::string key = r.substr(1, eq - 1), ty = r.substr(eq + 1);
			if (key[0] == 's') scalar(scope, ty, parseBytes(key.substr(1)));
			else if (key[0] == 'c') {
				// the key lives in a fixed-size char buffer that is larger than the text (as filled by snprintf): compared as a C string
				char buf[24] = {};
				const std::string k = parseBytes(key.substr(1));
				if (k.size() >= sizeof buf || k.find('\0') != std::string::npos) throw BadOp("c-key");
				std::memcpy(buf, k.data(), k.size());
				scalar(scope, ty, buf);
			}
			else if (key[0] == 'T') { const CBinTimestamp k = tsKey(key); scalar(scope, ty, k); }
			else if (key[0] == 'j') { const int32_t k = static_cast<int32_t>(std::stol(key.substr(1))); scalar(scope, ty, k); }
			else if (key[0] == 'u') { const uint64_t k = std::stoull(key.substr(1)); scalar(scope, ty, k); }
			else { const int64_t k = std::stoll(key.substr(1)); scalar(scope, ty, k); }
		}
		else if (r[0] == 'A' || r[0] == 'O' || r[0] == 'B') {
			const std::string key = r.substr(1);
			const char kind = r[0];
			withKey(key, [&](const auto& k) {
				if (kind == 'A') {
					auto child = scope.OpenArrayScope(k, 0);
					if (child) { out.push_back("P" + std::to_string(child->GetEstimatedSize())); arrayLoop(*child); child.reset(); out.push_back("C"); }
					else out.push_back("F");
				} else if (kind == 'O') {
					auto child = scope.OpenObjectScope(k, 0);
					if (child) { out.push_back("P" + std::to_string(child->GetEstimatedSize())); objectLoop(*child); child.reset(); out.push_back("C"); }
					else out.push_back("F");
				} else {
					auto child = scope.OpenBinaryScope(k, 0);
					if (child) { out.push_back("P" + std::to_string(child->GetEstimatedSize())); binaryLoop(*child); child.reset(); out.push_back("C"); }
					else out.push_back("F");
				}
			});
		}
		else throw BadOp("req in object");
	}
	throw BadOp("unclosed");
}

Register s1("mp.scope", [](const Tokens& t) -> std::string {
	if (t.size() != 5) throw BadOp("arity");
	SerializationOptions options;
	options.mismatchedTypesPolicy = t[2] == "skip" ? MismatchedTypesPolicy::Skip : MismatchedTypesPolicy::ThrowError;
	options.overflowNumberPolicy = OverflowNumberPolicy::ThrowError;
	std::string doc;
	{
		std::istringstream is(t[3]);
		std::string tok;
		while (std::getline(is, tok, ',')) encodeTok(doc, tok);
	}
	Run run;
	{
		std::istringstream is(t[4]);
		std::string r;
		while (std::getline(is, r, ';')) run.reqs.push_back(r);
	}
	SerializationContext ctx(options);
	std::istringstream stream(doc);
	std::optional<MP::MsgPackReadRootScope> root;
	if (t[1] == "mem") root.emplace(std::string_view(doc), ctx); else root.emplace(static_cast<std::istream&>(stream), ctx);
	try {
		while (run.i < run.reqs.size()) {
			const std::string r = run.reqs[run.i++];
			if (r == "a") {
				auto child = root->OpenArrayScope(0);
				if (child) { run.out.push_back("P" + std::to_string(child->GetEstimatedSize())); run.arrayLoop(*child); child.reset(); run.out.push_back("C"); }
				else run.out.push_back("F");
			}
			else if (r == "o") {
				auto child = root->OpenObjectScope(0);
				if (child) { run.out.push_back("P" + std::to_string(child->GetEstimatedSize())); run.objectLoop(*child); child.reset(); run.out.push_back("C"); }
				else run.out.push_back("F");
			}
			else if (r == "B") {
				auto child = root->OpenBinaryScope(0);
				if (child) { run.out.push_back("P" + std::to_string(child->GetEstimatedSize())); run.binaryLoop(*child); child.reset(); run.out.push_back("C"); }
				else run.out.push_back("F");
			}
			else if (r.rfind("n=", 0) == 0) run.scalar(*root, r.substr(2));
			else throw BadOp("req at root");
		}
		// what LoadObject() does after the object has been loaded: an error deferred by a scope destructor surfaces here
		root->Finalize();
	}
	catch (const BadOp&) { throw; }
	catch (const std::exception& e) { run.out.push_back("E" + describeException(e)); }
	std::string res;
	for (size_t k = 0; k < run.out.size(); ++k) { if (k) res.push_back(';'); res += run.out[k]; }
	return res.empty() ? "-" : res;
});

// mp.tuple … obj: the real LoadObject<MsgPackArchive> into struct { std::tuple<int64,string,int64,bool> t; int64 z; } — the tuple's
// array scope lives inside an object scope and is closed wherever the tuple stops; "z" is requested behind it.
struct TupHolder {
	std::tuple<int64_t, std::string, int64_t, bool> t;
	int64_t z = 0;
	template <class TArchive> void Serialize(TArchive& archive) { archive << KeyValue("t", t) << KeyValue("z", z); }
};

std::string tupleInObject(const Tokens& t) {
	SerializationOptions options;
	options.mismatchedTypesPolicy = t[2] == "skip" ? MismatchedTypesPolicy::Skip : MismatchedTypesPolicy::ThrowError;
	options.overflowNumberPolicy = OverflowNumberPolicy::ThrowError;
	std::string doc;
	{
		std::istringstream is(t[3]);
		std::string tok;
		while (std::getline(is, tok, ',')) encodeTok(doc, tok);
	}
	TupHolder a{ { 0x5A5A5A5A5ALL, "\x01prior-A", -0x5A5A5A5A5ALL, false }, 0x1111111111LL };
	TupHolder b{ { 0x3C3C3C3C3CLL, "\x02prior-B", -0x3C3C3C3C3CLL, true }, 0x2222222222LL };
	try {
		if (t[1] == "mem") { BitSerializer::LoadObject<BitSerializer::MsgPack::MsgPackArchive>(a, doc, options); BitSerializer::LoadObject<BitSerializer::MsgPack::MsgPackArchive>(b, doc, options); }
		else {
			std::istringstream s1(doc), s2(doc);
			BitSerializer::LoadObject<BitSerializer::MsgPack::MsgPackArchive>(a, s1, options); BitSerializer::LoadObject<BitSerializer::MsgPack::MsgPackArchive>(b, s2, options);
		}
	}
	catch (const std::exception& e) { return "E" + describeException(e); }
	std::string res;
	res += std::get<0>(a.t) == std::get<0>(b.t) ? "Ti" + std::to_string(std::get<0>(a.t)) : "F";
	res += ";";
	res += std::get<1>(a.t) == std::get<1>(b.t) ? "Ts" + hexBytes(std::get<1>(a.t)) : "F";
	res += ";";
	res += std::get<2>(a.t) == std::get<2>(b.t) ? "Ti" + std::to_string(std::get<2>(a.t)) : "F";
	res += ";";
	res += std::get<3>(a.t) == std::get<3>(b.t) ? (std::get<3>(a.t) ? "Tt" : "Tf") : "F";
	res += ";";
	res += a.z == b.z ? "Ti" + std::to_string(a.z) : "F";
	return res;
}

// mp.tuple: the real LoadObject<MsgPackArchive> into std::tuple<int64,string,int64,bool> (types/std/tuple.h).
// Loaded twice with two different sets of prior values: an element counts as loaded iff both runs end with the same value.
Register s2("mp.tuple", [](const Tokens& t) -> std::string {
	if (t.size() == 5 && t[4] == "obj") return tupleInObject(t);
	if (t.size() != 4) throw BadOp("arity");
	SerializationOptions options;
	options.mismatchedTypesPolicy = t[2] == "skip" ? MismatchedTypesPolicy::Skip : MismatchedTypesPolicy::ThrowError;
	options.overflowNumberPolicy = OverflowNumberPolicy::ThrowError;
	std::string doc;
	{
		std::istringstream is(t[3]);
		std::string tok;
		while (std::getline(is, tok, ',')) encodeTok(doc, tok);
	}
	using Tup = std::tuple<int64_t, std::string, int64_t, bool>;
	Tup a{ 0x5A5A5A5A5ALL, "\x01prior-A", -0x5A5A5A5A5ALL, false }, b{ 0x3C3C3C3C3CLL, "\x02prior-B", -0x3C3C3C3C3CLL, true };
	try {
		if (t[1] == "mem") { BitSerializer::LoadObject<BitSerializer::MsgPack::MsgPackArchive>(a, doc, options); BitSerializer::LoadObject<BitSerializer::MsgPack::MsgPackArchive>(b, doc, options); }
		else {
			std::istringstream s1(doc), s2(doc);
			BitSerializer::LoadObject<BitSerializer::MsgPack::MsgPackArchive>(a, s1, options); BitSerializer::LoadObject<BitSerializer::MsgPack::MsgPackArchive>(b, s2, options);
		}
	}
	catch (const std::exception& e) { return "E" + describeException(e); }
	std::string res;
	res += std::get<0>(a) == std::get<0>(b) ? "Ti" + std::to_string(std::get<0>(a)) : "F";
	res += ";";
	res += std::get<1>(a) == std::get<1>(b) ? "Ts" + hexBytes(std::get<1>(a)) : "F";
	res += ";";
	res += std::get<2>(a) == std::get<2>(b) ? "Ti" + std::to_string(std::get<2>(a)) : "F";
	res += ";";
	res += std::get<3>(a) == std::get<3>(b) ? (std::get<3>(a) ? "Tt" : "Tf") : "F";
	return res;
});

// mp.keyeq <u|s> <stored> <bits> <s|u> <value>: CVariableKey::operator== on the real class
Register s3("mp.keyeq", [](const Tokens& t) -> std::string {
	if (t.size() != 6) throw BadOp("arity");
	MP::MsgPackVariableKey key;
	if (t[1] == "u") key.GetValueRef<uint64_t>() = std::stoull(t[2]); else key.GetValueRef<int64_t>() = std::stoll(t[2]);
	const int bits = std::stoi(t[3]);
	const bool sg = t[4] == "s";
	bool r;
	if (sg) {
		const long long v = std::stoll(t[5]);
		switch (bits) {
		case 8: r = key == static_cast<int8_t>(v); break;
		case 16: r = key == static_cast<int16_t>(v); break;
		case 32: r = key == static_cast<int32_t>(v); break;
		case 64: r = key == static_cast<int64_t>(v); break;
		default: throw BadOp("bits");
		}
	} else {
		const unsigned long long v = std::stoull(t[5]);
		switch (bits) {
		case 8: r = key == static_cast<uint8_t>(v); break;
		case 16: r = key == static_cast<uint16_t>(v); break;
		case 32: r = key == static_cast<uint32_t>(v); break;
		case 64: r = key == static_cast<uint64_t>(v); break;
		default: throw BadOp("bits");
		}
	}
	return r ? "t" : "f";
});

} // namespace
