// Line-protocol harness over the real BitSerializer code (C++17).
// One op per input line; exactly one answer line per op.
#pragma once
#include <string>
#include <vector>
#include <functional>
#include <map>
#include <sstream>
#include <stdexcept>
#include <cstdint>

namespace vh {

using Tokens = std::vector<std::string>;
using Handler = std::function<std::string(const Tokens&)>;

std::map<std::string, Handler>& registry();
struct Register { Register(const char* name, Handler h) { registry()[name] = std::move(h); } };

// allocation watch (defined next to the interposed operator new in ops_fault.cpp)
void allocWatchReset();
std::size_t allocWatchMax();

struct BadOp : std::runtime_error { using std::runtime_error::runtime_error; };

// ---- hex helpers (same syntax as BSVerif/Basic.lean) ----
inline int hexval(char c) {
	if (c >= '0' && c <= '9') return c - '0';
	if (c >= 'a' && c <= 'f') return c - 'a' + 10;
	if (c >= 'A' && c <= 'F') return c - 'A' + 10;
	throw BadOp("hex");
}
inline std::vector<uint64_t> parseUnits(const std::string& s) {
	std::vector<uint64_t> r;
	if (s == "-") return r;
	uint64_t cur = 0; bool any = false;
	for (char c : s) {
		if (c == '.') { if (!any) throw BadOp("units"); r.push_back(cur); cur = 0; any = false; }
		else { cur = cur * 16 + hexval(c); any = true; }
	}
	if (!any) throw BadOp("units");
	r.push_back(cur);
	return r;
}
inline std::string parseBytes(const std::string& s) {
	std::string r;
	if (s == "-") return r;
	if (s.size() % 2) throw BadOp("bytes");
	for (size_t i = 0; i < s.size(); i += 2) r.push_back(static_cast<char>(hexval(s[i]) * 16 + hexval(s[i + 1])));
	return r;
}
inline std::string hexBytes(const std::string& s) {
	if (s.empty()) return "-";
	static const char* d = "0123456789abcdef";
	std::string r;
	for (unsigned char c : s) { r.push_back(d[c >> 4]); r.push_back(d[c & 15]); }
	return r;
}
template <class TStr>
std::string hexUnits(const TStr& s) {
	if (s.empty()) return "-";
	static const char* d = "0123456789abcdef";
	constexpr int nibbles = sizeof(typename TStr::value_type) * 2;
	std::string r;
	bool first = true;
	for (auto ch : s) {
		if (!first) r.push_back('.');
		first = false;
		auto v = static_cast<uint64_t>(static_cast<std::make_unsigned_t<decltype(ch)>>(ch));
		for (int i = nibbles - 1; i >= 0; --i) r.push_back(d[(v >> (4 * i)) & 15]);
	}
	return r;
}
template <class TStr>
TStr toStr(const std::vector<uint64_t>& u) {
	TStr s;
	for (auto v : u) s.push_back(static_cast<typename TStr::value_type>(v));
	return s;
}

} // namespace vh
