// Chrono ops (see chrono_ops.h for the protocol): iso.parse_tp, iso.parse_raw, iso.parse_tm
#include "chrono_ops.h"

using namespace vh_chrono;

namespace {

Register r2("iso.parse_tp", [](const Tokens& t) -> std::string {
	if (t.size() != 4) throw BadOp("arity");
	return withType(t[1], [&](auto tag) -> std::string {
		using D = typename decltype(tag)::type;
		using TP = std::chrono::time_point<std::chrono::system_clock, D>;
		const TP tp = parseWith<TP>(t[2], t[3]);
		return "ok " + showCount(tp.time_since_epoch().count());
	});
});

Register r6("iso.parse_raw", [](const Tokens& t) -> std::string {
	if (t.size() != 3) throw BadOp("arity");
	const BS::CRawTime r = parseWith<BS::CRawTime>(t[1], t[2]);
	return "ok " + showCount(static_cast<int64_t>(r.Time));
});

Register r8("iso.parse_tm", [](const Tokens& t) -> std::string {
	if (t.size() != 3) throw BadOp("arity");
	const std::tm tm = parseWith<std::tm>(t[1], t[2]);
	std::ostringstream os;
	os << "ok " << tm.tm_year << ' ' << tm.tm_mon << ' ' << tm.tm_mday << ' ' << tm.tm_hour << ' ' << tm.tm_min << ' ' << tm.tm_sec;
	return os.str();
});

} // namespace
