// Numeric conversion ops: drive Convert::To / TryTo / ToString (convert.h, convert_fundamental.h) and
// Detail::ConvertByPolicy (archive_base.h) of the current tree.
//
//   num.conv   <S> <T> <v>                      Convert::To<T>(S v)                 -> ok <v'> | err <class>
//   num.try    <S> <T> <v>                      Convert::TryTo<T>(S v)              -> ok <v'> | none
//   num.parse  <T> <w> <units>                  Convert::To<T>(basic_string_view)   -> ok <v'> | err <class>
//   num.bool   <w> <units>                      Convert::To<bool>(basic_string_view)-> ok 0|1  | err <class>
//   num.print  <T> <w> <v>                      Convert::To<basic_string<Ch>>(T v)  -> ok <units>
//   num.frt    <F> <w> <bits>                   print, then parse the printed text  -> ok <bits'> <units> | err <class>
//   num.policy <S> <T> <ovf> <mis> <v>          ConvertByPolicy(S v, T& target = 42 (bool: 1))
//                                               -> true <target> | false <target> | err overflow | err mismatched
//       S may also be str8|str16|str32 (v = units) or null (std::nullptr_t: not convertible)
//
//   types: i8 u8 i16 u16 i32 u32 i64 u64 bool char c16 c32 wc f32 f64
//   integer values are decimal, floating values are hex bit patterns (8 / 16 digits), w in 8|16|32|w (wchar_t)
#include "harness.h"
#include "bitserializer/convert.h"
#include "bitserializer/serialization_detail/archive_base.h"
#include <cstring>
#include <limits>
#include <vector>
#include <type_traits>

using namespace vh;
namespace C = BitSerializer::Convert;

namespace {

template <class T> struct Tag { using type = T; };

template <class F>
std::string withType(const std::string& t, F&& f) {
	if (t == "i8") return f(Tag<int8_t>{});
	if (t == "u8") return f(Tag<uint8_t>{});
	if (t == "i16") return f(Tag<int16_t>{});
	if (t == "u16") return f(Tag<uint16_t>{});
	if (t == "i32") return f(Tag<int32_t>{});
	if (t == "u32") return f(Tag<uint32_t>{});
	if (t == "i64") return f(Tag<int64_t>{});
	if (t == "u64") return f(Tag<uint64_t>{});
	if (t == "bool") return f(Tag<bool>{});
	if (t == "char") return f(Tag<char>{});
	if (t == "c16") return f(Tag<char16_t>{});
	if (t == "c32") return f(Tag<char32_t>{});
	if (t == "wc") return f(Tag<wchar_t>{});
	if (t == "f32") return f(Tag<float>{});
	if (t == "f64") return f(Tag<double>{});
	throw BadOp("type");
}

template <class F>
std::string withWidth(const std::string& w, F&& f) {
	if (w == "8") return f(Tag<char>{});
	if (w == "16") return f(Tag<char16_t>{});
	if (w == "32") return f(Tag<char32_t>{});
	if (w == "w") return f(Tag<wchar_t>{});
	throw BadOp("width");
}

// ---- values -------------------------------------------------------------------------------
template <class T>
T parseVal(const std::string& s) {
	if constexpr (std::is_floating_point_v<T>) {
		using U = std::conditional_t<sizeof(T) == 4, uint32_t, uint64_t>;
		if (s.size() != sizeof(T) * 2) throw BadOp("float bits");
		uint64_t b = 0;
		for (char c : s) b = b * 16 + static_cast<uint64_t>(hexval(c));
		U u = static_cast<U>(b);
		T r; std::memcpy(&r, &u, sizeof r);
		return r;
	}
	else {
		if (s.empty()) throw BadOp("int");
		const bool neg = s[0] == '-';
		unsigned __int128 mag = 0;
		size_t i = neg ? 1 : 0;
		if (i >= s.size()) throw BadOp("int");
		for (; i < s.size(); ++i) {
			if (s[i] < '0' || s[i] > '9') throw BadOp("int");
			mag = mag * 10 + static_cast<unsigned>(s[i] - '0');
			if (mag > (static_cast<unsigned __int128>(1) << 64)) throw BadOp("int range");
		}
		__int128 v = neg ? -static_cast<__int128>(mag) : static_cast<__int128>(mag);
		if constexpr (std::is_same_v<T, bool>) {
			if (v != 0 && v != 1) throw BadOp("bool range");
			return v == 1;
		}
		else {
			if (v < static_cast<__int128>(std::numeric_limits<T>::min()) || v > static_cast<__int128>(std::numeric_limits<T>::max())) throw BadOp("range");
			return static_cast<T>(v);
		}
	}
}

template <class T>
std::string showVal(const T& v) {
	if constexpr (std::is_floating_point_v<T>) {
		using U = std::conditional_t<sizeof(T) == 4, uint32_t, uint64_t>;
		U u; std::memcpy(&u, &v, sizeof u);
		static const char* d = "0123456789abcdef";
		std::string r;
		for (int i = static_cast<int>(sizeof(T)) * 2 - 1; i >= 0; --i) r.push_back(d[(u >> (4 * i)) & 15]);
		return r;
	}
	else if constexpr (std::is_same_v<T, bool>) {
		// read the object representation, so that a bool holding something else than 0/1 would be visible
		unsigned char raw; std::memcpy(&raw, &v, 1);
		return std::to_string(static_cast<unsigned>(raw));
	}
	else if constexpr (std::is_signed_v<T>) return std::to_string(static_cast<long long>(v));
	else return std::to_string(static_cast<unsigned long long>(v));
}

// The text handed to the parsers is a VIEW into a larger buffer that continues with the digits "75": a parser that looks
// past the end of its view (the view is not NUL-terminated) changes its answer and disagrees with the model.
template <class Ch>
struct PaddedText {
	std::basic_string<Ch> buf;
	size_t n = 0;
	const Ch* data() const { return buf.data(); }
	size_t size() const { return n; }
};
template <class Ch>
PaddedText<Ch> unitsToStr(const std::string& tok) {
	const auto us = parseUnits(tok);
	for (auto u : us) {
		if (sizeof(Ch) < 8 && (u >> (8 * sizeof(Ch))) != 0) throw BadOp("unit width");
	}
	PaddedText<Ch> r;
	r.buf = toStr<std::basic_string<Ch>>(us);
	r.n = r.buf.size();
	r.buf.push_back(static_cast<Ch>('7')); r.buf.push_back(static_cast<Ch>('5'));
	return r;
}

// The same text once more in a heap block of EXACTLY its size (nothing readable behind it): a parser that looks past the end of
// its view is an AddressSanitizer report here (the padded run above turns the same slip into a different answer)
template <class T, class Ch>
void probeExactSize(const PaddedText<Ch>& p) {
	const std::vector<Ch> exact(p.data(), p.data() + p.size());
	try { (void)C::To<T>(std::basic_string_view<Ch>(exact.data(), exact.size())); }
	catch (const std::exception&) {}
}

// from_chars has no overloads for char16_t/char32_t/wchar_t: Convert::To<T>(string) does not compile for them
template <class T>
constexpr bool parsable_v = !(std::is_same_v<T, char16_t> || std::is_same_v<T, char32_t> || std::is_same_v<T, wchar_t>);

// ---- ops ----------------------------------------------------------------------------------
Register rConv("num.conv", [](const Tokens& t) -> std::string {
	if (t.size() != 4) throw BadOp("arity");
	return withType(t[1], [&](auto s) {
		using S = typename decltype(s)::type;
		return withType(t[2], [&](auto d) -> std::string {
			using T = typename decltype(d)::type;
			const S v = parseVal<S>(t[3]);
			const T r = C::To<T>(v);
			return "ok " + showVal(r);
		});
	});
});

Register rTry("num.try", [](const Tokens& t) -> std::string {
	if (t.size() != 4) throw BadOp("arity");
	return withType(t[1], [&](auto s) {
		using S = typename decltype(s)::type;
		return withType(t[2], [&](auto d) -> std::string {
			using T = typename decltype(d)::type;
			const S v = parseVal<S>(t[3]);
			const std::optional<T> r = C::TryTo<T>(v);
			return r ? "ok " + showVal(*r) : std::string("none");
		});
	});
});

Register rParse("num.parse", [](const Tokens& t) -> std::string {
	if (t.size() != 4) throw BadOp("arity");
	return withType(t[1], [&](auto d) {
		using T = typename decltype(d)::type;
		return withWidth(t[2], [&](auto c) -> std::string {
			using Ch = typename decltype(c)::type;
			if constexpr (parsable_v<T>) {
				const auto str = unitsToStr<Ch>(t[3]);
				probeExactSize<T>(str);
				const T r = C::To<T>(std::basic_string_view<Ch>(str.data(), str.size()));
				return "ok " + showVal(r);
			}
			else throw BadOp("no from_chars for this type");
		});
	});
});

Register rBool("num.bool", [](const Tokens& t) -> std::string {
	if (t.size() != 3) throw BadOp("arity");
	return withWidth(t[1], [&](auto c) -> std::string {
		using Ch = typename decltype(c)::type;
		const auto str = unitsToStr<Ch>(t[2]);
		probeExactSize<bool>(str);
		const bool r = C::To<bool>(std::basic_string_view<Ch>(str.data(), str.size()));
		return "ok " + showVal(r);
	});
});

Register rPrint("num.print", [](const Tokens& t) -> std::string {
	if (t.size() != 4) throw BadOp("arity");
	return withType(t[1], [&](auto s) {
		using S = typename decltype(s)::type;
		return withWidth(t[2], [&](auto c) -> std::string {
			using Ch = typename decltype(c)::type;
			if constexpr (parsable_v<S>) {
				const S v = parseVal<S>(t[3]);
				const auto str = C::To<std::basic_string<Ch>>(v);
				return "ok " + hexUnits(str);
			}
			else throw BadOp("no to_chars for this type");
		});
	});
});

Register rFrt("num.frt", [](const Tokens& t) -> std::string {
	if (t.size() != 4) throw BadOp("arity");
	return withType(t[1], [&](auto s) {
		using S = typename decltype(s)::type;
		return withWidth(t[2], [&](auto c) -> std::string {
			using Ch = typename decltype(c)::type;
			if constexpr (std::is_floating_point_v<S>) {
				const S v = parseVal<S>(t[3]);
				const auto str = C::To<std::basic_string<Ch>>(v);
				const S back = C::To<S>(std::basic_string_view<Ch>(str.data(), str.size()));
				return "ok " + showVal(back) + " " + hexUnits(str);
			}
			else throw BadOp("float types only");
		});
	});
});

// Implementation-side sweep: how many bit patterns in [lo, hi] (step `stride`) do not survive print-then-parse bit-identically
// (NaN must come back as NaN). A test of the "libstdc++ to_chars/from_chars round-trip" assumption on its own answers.
Register rSweep("num.frtsweep", [](const Tokens& t) -> std::string {
	if (t.size() != 6) throw BadOp("arity");
	const uint64_t stride = std::stoull(t[5]);
	if (stride == 0) throw BadOp("stride");
	return withType(t[1], [&](auto s) {
		using S = typename decltype(s)::type;
		return withWidth(t[2], [&](auto c) -> std::string {
			using Ch = typename decltype(c)::type;
			if constexpr (std::is_floating_point_v<S>) {
				using U = std::conditional_t<sizeof(S) == 4, uint32_t, uint64_t>;
				if (t[3].size() != sizeof(S) * 2 || t[4].size() != sizeof(S) * 2) throw BadOp("bits");
				const uint64_t lo = std::stoull(t[3], nullptr, 16), hi = std::stoull(t[4], nullptr, 16);
				uint64_t bad = 0; std::string first = "-";
				std::basic_string<Ch> str;
				for (uint64_t b = lo; ; b += stride) {
					U u = static_cast<U>(b); S v; std::memcpy(&v, &u, sizeof v);
					str.clear();
					BitSerializer::Convert::Detail::To(v, str);
					S back{};
					bool okv = true;
					try { BitSerializer::Convert::Detail::To(std::basic_string_view<Ch>(str.data(), str.size()), back); }
					catch (const std::exception&) { okv = false; }
					U ub; std::memcpy(&ub, &back, sizeof ub);
					const bool same = okv && (v != v ? back != back : ub == u);
					if (!same) { if (bad == 0) first = showVal(v); ++bad; }
					if (b > hi - stride || b + stride < b) break;
				}
				return "ok " + std::to_string(bad) + " " + first;
			}
			else throw BadOp("float types only");
		});
	});
});

BitSerializer::OverflowNumberPolicy ovfPol(const std::string& s) {
	if (s == "throw") return BitSerializer::OverflowNumberPolicy::ThrowError;
	if (s == "skip") return BitSerializer::OverflowNumberPolicy::Skip;
	throw BadOp("ovf");
}
BitSerializer::MismatchedTypesPolicy misPol(const std::string& s) {
	if (s == "throw") return BitSerializer::MismatchedTypesPolicy::ThrowError;
	if (s == "skip") return BitSerializer::MismatchedTypesPolicy::Skip;
	throw BadOp("mis");
}

template <class T> T sentinel() {
	if constexpr (std::is_same_v<T, bool>) return true; else return static_cast<T>(42);
}

template <class T, class Src>
std::string runPolicy(Src&& src, const Tokens& t) {
	T target = sentinel<T>();
	const bool ok = BitSerializer::Detail::ConvertByPolicy(std::forward<Src>(src), target, misPol(t[4]), ovfPol(t[3]));
	return std::string(ok ? "true " : "false ") + showVal(target);
}

Register rPolicy("num.policy", [](const Tokens& t) -> std::string {
	if (t.size() != 6) throw BadOp("arity");
	const std::string& s = t[1];
	return withType(t[2], [&](auto d) -> std::string {
		using T = typename decltype(d)::type;
		if (s == "null") { return runPolicy<T>(nullptr, t); }
		if (s == "str8" || s == "str16" || s == "str32") {
			if constexpr (parsable_v<T>) {
				if (s == "str8") { auto str = unitsToStr<char>(t[5]); std::string_view sv(str.data(), str.size()); return runPolicy<T>(sv, t); }
				if (s == "str16") { auto str = unitsToStr<char16_t>(t[5]); std::u16string_view sv(str.data(), str.size()); return runPolicy<T>(sv, t); }
				auto str = unitsToStr<char32_t>(t[5]); std::u32string_view sv(str.data(), str.size()); return runPolicy<T>(sv, t);
			}
			else throw BadOp("no from_chars for this type");
		}
		return withType(s, [&](auto sTag) -> std::string {
			using S = typename decltype(sTag)::type;
			S v = parseVal<S>(t[5]);
			return runPolicy<T>(v, t);
		});
	});
});

} // namespace
