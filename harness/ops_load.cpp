// load.any: LoadObject<Archive> of ARBITRARY bytes into a fixed table of targets (C02, C01).
//   load.any <archive:mp|csv|json|xml> <src:mem|stream> <target> <ovf:throw|skip> <mis:throw|skip> <hex bytes>
//   answer: ok <canonical value> | exc:<class>       (crashes/terminate/timeouts are detected by check.py)
// rt.any: save then load of a value built from a seed (round trip through the real archives)
//   rt.any <archive> <src> <target> <seed>   -> same | differ <saved hex> | exc-save:<class> | exc-load:<class> <saved hex>
#include "harness.h"
#include <sstream>
#include <map>
#include <optional>
#include <random>
#include "bitserializer/bit_serializer.h"
#include "bitserializer/msgpack_archive.h"
#include "bitserializer/csv_archive.h"
#include "bitserializer/rapidjson_archive.h"
#include "bitserializer/pugixml_archive.h"
#include "bitserializer/types/std/vector.h"
#include "bitserializer/types/std/map.h"
#include "bitserializer/types/std/optional.h"
#include "bitserializer/types/std/array.h"
#include <array>
#include "bitserializer/types/std/chrono.h"
#include <chrono>

using namespace vh;
using namespace BitSerializer;
std::string describeException(const std::exception& e);

namespace {

struct InnerL {
	int a = 0; std::string s;
	template <class TArchive> void Serialize(TArchive& archive) { archive << KeyValue("a", a) << KeyValue("s", s); }
	bool operator==(const InnerL& o) const { return a == o.a && s == o.s; }
};
struct OuterL {
	int id = 0; std::string name; std::vector<int> nums; InnerL inner; std::map<std::string, int> m; std::optional<int> opt; bool flag = false; double d = 0;
	template <class TArchive> void Serialize(TArchive& archive) {
		archive << KeyValue("id", id) << KeyValue("name", name) << KeyValue("nums", nums) << KeyValue("inner", inner)
			<< KeyValue("m", m) << KeyValue("opt", opt) << KeyValue("flag", flag) << KeyValue("d", d);
	}
	bool operator==(const OuterL& o) const { return id == o.id && name == o.name && nums == o.nums && inner == o.inner && m == o.m && opt == o.opt && flag == o.flag && d == o.d; }
};
struct RowL {
	int x = 0; std::string y; double z = 0; bool b = false;
	template <class TArchive> void Serialize(TArchive& archive) { archive << KeyValue("x", x) << KeyValue("y", y) << KeyValue("z", z) << KeyValue("b", b); }
	bool operator==(const RowL& o) const { return x == o.x && y == o.y && z == o.z && b == o.b; }
};

// chrono fields: MsgPack carries them as the Timestamp extension (32/64/96-bit layouts), the text archives as ISO-8601
struct ChronoL {
	std::chrono::time_point<std::chrono::system_clock, std::chrono::seconds> tps;
	std::chrono::time_point<std::chrono::system_clock, std::chrono::milliseconds> tpms;
	std::chrono::seconds ds{};
	std::chrono::nanoseconds dns{};
	int tail = 0;
	template <class TArchive> void Serialize(TArchive& archive) {
		archive << KeyValue("tps", tps) << KeyValue("tpms", tpms) << KeyValue("ds", ds) << KeyValue("dns", dns) << KeyValue("tail", tail);
	}
	bool operator==(const ChronoL& o) const { return tps == o.tps && tpms == o.tpms && ds == o.ds && dns == o.dns && tail == o.tail; }
};

// class shapes: a field serialised BEFORE the base classes, two base classes, fields between and after them
struct ShapeA {
	int a = 0;
	template <class TArchive> void Serialize(TArchive& archive) { archive << KeyValue("a", a); }
};
struct ShapeB {
	std::string b; bool b2 = false;
	template <class TArchive> void Serialize(TArchive& archive) { archive << KeyValue("b", b) << KeyValue("b2", b2); }
};
struct ShapeL : ShapeA, ShapeB {
	int pre = 0; int mid = 0; double post = 0;
	template <class TArchive> void Serialize(TArchive& archive) {
		archive << KeyValue("pre", pre) << BaseObject<ShapeA>(*this) << KeyValue("mid", mid) << BaseObject<ShapeB>(*this) << KeyValue("post", post);
	}
	bool operator==(const ShapeL& o) const { return a == o.a && b == o.b && b2 == o.b2 && pre == o.pre && mid == o.mid && post == o.post; }
};

std::string hexs(const std::string& s) { return hexBytes(s); }
std::string show(const ChronoL& v) {
	return "(" + std::to_string(v.tps.time_since_epoch().count()) + "," + std::to_string(v.tpms.time_since_epoch().count()) + "," +
		std::to_string(v.ds.count()) + "," + std::to_string(v.dns.count()) + "," + std::to_string(v.tail) + ")";
}
std::string show(int v) { return "i" + std::to_string(v); }
std::string show(const std::string& v) { return "s" + hexs(v); }
std::string show(double v) { uint64_t b; std::memcpy(&b, &v, 8); char buf[24]; std::snprintf(buf, sizeof buf, "d%016llx", static_cast<unsigned long long>(b)); return buf; }
std::string show(bool v) { return v ? "t" : "f"; }
template <class T> std::string show(const std::optional<T>& v) { return v ? "?" + show(*v) : std::string("null"); }
template <class T, size_t N> std::string show(const std::array<T, N>& v) { std::string r = "["; for (auto& e : v) { r += show(e); r += ","; } return r + "]"; }
template <class T> std::string show(const std::vector<T>& v) { std::string r = "["; for (auto& e : v) { r += show(e); r += ","; } return r + "]"; }
template <class T> std::string show(const std::multimap<std::string, T>& v) { std::string r = "{{"; for (auto& [k, e] : v) { r += hexs(k) + "=" + show(e) + ","; } return r + "}}"; }
std::string show(const std::chrono::time_point<std::chrono::system_clock, std::chrono::seconds>& v) { return "tp" + std::to_string(v.time_since_epoch().count()); }
template <class T> std::string show(const std::map<std::string, T>& v) { std::string r = "{"; for (auto& [k, e] : v) { r += hexs(k) + "=" + show(e) + ","; } return r + "}"; }
std::string show(const ShapeL& v) { return "(" + show(v.pre) + "," + show(v.a) + "," + show(v.mid) + "," + show(v.b) + "," + show(v.b2) + "," + show(v.post) + ")"; }
std::string show(const InnerL& v) { return "(" + show(v.a) + "," + show(v.s) + ")"; }
std::string show(const OuterL& v) { return "(" + show(v.id) + "," + show(v.name) + "," + show(v.nums) + "," + show(v.inner) + "," + show(v.m) + "," + show(v.opt) + "," + show(v.flag) + "," + show(v.d) + ")"; }
std::string show(const RowL& v) { return "(" + show(v.x) + "," + show(v.y) + "," + show(v.z) + "," + show(v.b) + ")"; }

template <class TArchive, class T>
std::string loadInto(const std::string& bytes, bool stream, const SerializationOptions& opts) {
	T value{};
	if (stream) { std::istringstream is(bytes); LoadObject<TArchive>(value, is, opts); }
	else LoadObject<TArchive>(value, bytes, opts);
	return "ok " + show(value);
}

template <class TArchive>
std::string loadTarget(const std::string& target, const std::string& bytes, bool stream, const SerializationOptions& opts) {
	constexpr bool isCsv = std::is_same_v<TArchive, Csv::CsvArchive>;
	if (target == "rows") return loadInto<TArchive, std::vector<RowL>>(bytes, stream, opts);
	constexpr bool isXml = std::is_same_v<TArchive, Xml::PugiXml::XmlArchive>;
	if constexpr (!isCsv && !isXml) {
		if (target == "i32") return loadInto<TArchive, int>(bytes, stream, opts);
		if (target == "str") return loadInto<TArchive, std::string>(bytes, stream, opts);
	}
	if constexpr (!isCsv) {
		if (target == "vi") return loadInto<TArchive, std::vector<int>>(bytes, stream, opts);
		// fixed-size targets: a document with more (or fewer) items than the target holds must end in an exception, never in a write
		// behind the target (ASan watches the stack object)
		if (target == "a4") return loadInto<TArchive, std::array<int, 4>>(bytes, stream, opts);
		if (target == "ca4") {
			int value[4] = { 0, 0, 0, 0 };
			if (stream) { std::istringstream is(bytes); LoadObject<TArchive>(value, is, opts); } else LoadObject<TArchive>(value, bytes, opts);
			return "ok [" + show(value[0]) + "," + show(value[1]) + "," + show(value[2]) + "," + show(value[3]) + ",]";
		}
		if (target == "vs") return loadInto<TArchive, std::vector<std::string>>(bytes, stream, opts);
		if (target == "vvi") return loadInto<TArchive, std::vector<std::vector<int>>>(bytes, stream, opts);
		if (target == "msi") return loadInto<TArchive, std::map<std::string, int>>(bytes, stream, opts);
		if (target == "outer") return loadInto<TArchive, OuterL>(bytes, stream, opts);
		if (target == "vouter") return loadInto<TArchive, std::vector<OuterL>>(bytes, stream, opts);
	}
	throw BadOp("target");
}

Register l1("load.any", [](const Tokens& t) -> std::string {
	if (t.size() != 7) throw BadOp("arity");
	SerializationOptions opts;
	opts.overflowNumberPolicy = t[4] == "skip" ? OverflowNumberPolicy::Skip : OverflowNumberPolicy::ThrowError;
	opts.mismatchedTypesPolicy = t[5] == "skip" ? MismatchedTypesPolicy::Skip : MismatchedTypesPolicy::ThrowError;
	const std::string bytes = parseBytes(t[6]);
	const bool stream = t[2] == "stream";
	// one allocation request far out of proportion to the document (a declared length that is trusted before the data arrives)
	// is reported even when the call then ends normally or with a proper exception
	allocWatchReset();
	std::string answer;
	try {
		if (t[1] == "mp") answer = loadTarget<MsgPack::MsgPackArchive>(t[3], bytes, stream, opts);
		else if (t[1] == "csv") answer = loadTarget<Csv::CsvArchive>(t[3], bytes, stream, opts);
		else if (t[1] == "json") answer = loadTarget<Json::RapidJson::JsonArchive>(t[3], bytes, stream, opts);
		else if (t[1] == "xml") answer = loadTarget<Xml::PugiXml::XmlArchive>(t[3], bytes, stream, opts);
		else throw BadOp("archive");
	}
	catch (const BadOp&) { throw; }
	catch (const std::exception& e) { answer = "exc:" + describeException(e); }
	const std::size_t limit = std::max<std::size_t>(8u << 20, bytes.size() * 4096);
	if (allocWatchMax() > limit) answer += " BIGALLOC";
	return answer;
	throw BadOp("archive");
});

// ---- round trips -----------------------------------------------------------------------------------
static bool g_xmlDomain = false;   // XML can only carry XML-1.0 characters and element names: restrict the generated values
std::string randText(std::mt19937& g) {
	if (g_xmlDomain) {
		static const char* pieces[] = { "", "a", "plain", "with,comma", "q\"uote", "line\nbreak", " lead", "trail ", "<tag>&amp;", "\\back/",
			"\xC3\xA9", "\xE2\x82\xAC", "\xF0\x9F\x98\x80", "'apos'", "]]>", "{\"k\":1}", "0", "-1", "true", "null", "1e5" };
		std::string s;
		for (unsigned i = 0, n = g() % 4; i < n; ++i) s += pieces[g() % (sizeof pieces / sizeof *pieces)];
		return s;
	}
	static const char* pieces[] = { "", "a", "plain", "with,comma", "q\"uote", "line\nbreak", "cr\rlf\r\n", "tab\t", " lead", "trail ", "<tag>&amp;", "\\back/",
		"\xC3\xA9", "\xE2\x82\xAC", "\xF0\x9F\x98\x80", "\x01ctl", "'apos'", "]]>", "{\"k\":1}", "0", "-1", "true", "null", "1e5" };
	std::string s;
	for (unsigned i = 0, n = g() % 4; i < n; ++i) s += pieces[g() % (sizeof pieces / sizeof *pieces)];
	return s;
}
int randInt(std::mt19937& g) {
	static const int vals[] = { 0, 1, -1, 127, 128, 255, 256, -128, -129, 32767, 32768, 65535, 65536, 2147483647, -2147483647 - 1, 1000000 };
	return g() % 3 ? vals[g() % (sizeof vals / sizeof *vals)] : static_cast<int>(g());
}
double randDouble(std::mt19937& g) {
	static const double vals[] = { 0.0, -0.0, 1.0, -1.5, 0.1, 1e300, 1e-300, 5e-324, 123456789.125, 3.141592653589793 };
	return vals[g() % (sizeof vals / sizeof *vals)];
}
void fill(std::mt19937& g, int& v) { v = randInt(g); }
void fill(std::mt19937& g, std::string& v) { v = randText(g); }
void fill(std::mt19937& g, double& v) { v = randDouble(g); }
void fill(std::mt19937& g, bool& v) { v = g() % 2; }
template <class T> void fill(std::mt19937& g, std::vector<T>& v) { v.resize(g() % 4); for (auto& e : v) fill(g, e); }
template <class T> void fill(std::mt19937& g, std::optional<T>& v) { if (g() % 2) { v.emplace(); fill(g, *v); } else v.reset(); }
template <class T> void fill(std::mt19937& g, std::map<std::string, T>& v) {
	v.clear();
	for (unsigned i = 0, n = g() % 4; i < n; ++i) { T e{}; fill(g, e); v["k" + std::to_string(g() % 9) + (g_xmlDomain ? std::string(g() % 3, 'n') : randText(g))] = e; }
}
long long randSeconds(std::mt19937& g) {
	// every layout threshold of the MsgPack Timestamp extension and some calendar dates; all printable as ISO-8601
	static const long long vals[] = { 0, 1, -1, 59, 86399, 86400, 2147483647LL, 2147483648LL, 4294967295LL, 4294967296LL, 4294967297LL,
		7258118400LL /* 2200-01-01 */, 8589934592LL, 17179869183LL, 17179869184LL, 17179869185LL, 34359738368LL, 253402300799LL /* 9999-12-31 */,
		-2147483648LL, -2147483649LL, -62135596800LL /* 0001-01-01 */, 1700000000LL, 951782400LL /* 2000-02-29 */ };
	if (g() % 4) return vals[g() % (sizeof vals / sizeof *vals)];
	return static_cast<long long>(g() % 40000000000ULL) - 10000000000LL;
}
void fill(std::mt19937& g, ChronoL& v) {
	using namespace std::chrono;
	v.tps = time_point<system_clock, seconds>(seconds(randSeconds(g)));
	static const int fr[] = { 0, 0, 1, 500, 999 };
	v.tpms = time_point<system_clock, milliseconds>(milliseconds(randSeconds(g) * 1000 + fr[g() % 5]));
	v.ds = seconds(randSeconds(g));
	static const long long ns[] = { 0, 1, 999999999LL, 1000000000LL, 1500000000LL, -1, -999999999LL, -1000000001LL, 4294967296000000000LL, 4294967295000000000LL };
	v.dns = nanoseconds(g() % 3 ? ns[g() % (sizeof ns / sizeof *ns)] : static_cast<long long>(g()) * 1000003LL);
	v.tail = randInt(g);
}
// equal keys with different values: their relative order is part of the value (std::multimap keeps insertion order among equals)
template <class T> void fill(std::mt19937& g, std::multimap<std::string, T>& v) {
	v.clear();
	for (unsigned i = 0, n = g() % 7; i < n; ++i) { T e{}; fill(g, e); v.emplace("k" + std::to_string(g() % 3), e); }
}
void fill(std::mt19937& g, std::chrono::time_point<std::chrono::system_clock, std::chrono::seconds>& v) {
	v = std::chrono::time_point<std::chrono::system_clock, std::chrono::seconds>(std::chrono::seconds(randSeconds(g)));
}
// long sequences of timestamps: in a stream their ext headers fall on every offset relative to the 256-byte cache
template <class T> void fillLong(std::mt19937& g, std::vector<T>& v) { v.resize(g() % 140); for (auto& e : v) fill(g, e); }
void fill(std::mt19937& g, ShapeL& v) { fill(g, v.pre); fill(g, v.a); fill(g, v.mid); fill(g, v.b); fill(g, v.b2); fill(g, v.post); }
void fill(std::mt19937& g, InnerL& v) { fill(g, v.a); fill(g, v.s); }
void fill(std::mt19937& g, OuterL& v) { fill(g, v.id); fill(g, v.name); fill(g, v.nums); fill(g, v.inner); fill(g, v.m); fill(g, v.opt); fill(g, v.flag); fill(g, v.d); }
void fill(std::mt19937& g, RowL& v) { fill(g, v.x); fill(g, v.y); fill(g, v.z); fill(g, v.b); }

template <class TArchive, class T>
std::string roundTrip(bool stream, unsigned seed) {
	std::mt19937 g(seed);
	T value{}; fill(g, value);
	std::string saved;
	try {
		if (stream) { std::ostringstream os; SaveObject<TArchive>(value, os); saved = os.str(); }
		else SaveObject<TArchive>(value, saved);
	}
	catch (const std::exception& e) { return "exc-save:" + describeException(e); }
	T loaded{};
	try {
		if (stream) { std::istringstream is(saved); LoadObject<TArchive>(loaded, is); }
		else LoadObject<TArchive>(loaded, saved);
	}
	catch (const std::exception& e) { return "exc-load:" + describeException(e) + " " + hexs(saved) + " " + show(value); }
	if (loaded == value) return "same";
	return "differ " + hexs(saved) + " " + show(value) + " " + show(loaded);
}

// rows whose saved document is padded to an exact multiple of 256 bytes (the stream readers' chunk size), +0/+1/-1
template <class TArchive>
std::string roundTripAligned(bool stream, unsigned seed) {
	std::mt19937 g(seed);
	std::vector<RowL> value(1 + g() % 12); for (auto& e : value) fill(g, e);
	const int delta = static_cast<int>(g() % 3) - 1;
	std::string saved;
	try {
		SaveObject<TArchive>(value, saved);
		const size_t want = (saved.size() / 256 + 1 + g() % 2) * 256 + delta;
		value.back().y += std::string(want - saved.size(), 'p');
		saved.clear();
		if (stream) { std::ostringstream os; SaveObject<TArchive>(value, os); saved = os.str(); } else SaveObject<TArchive>(value, saved);
	}
	catch (const std::exception& e) { return "exc-save:" + describeException(e); }
	std::vector<RowL> loaded;
	try {
		if (stream) { std::istringstream is(saved); LoadObject<TArchive>(loaded, is); } else LoadObject<TArchive>(loaded, saved);
	}
	catch (const std::exception& e) { return "exc-load:" + describeException(e) + " " + hexs(saved) + " " + show(value); }
	if (loaded == value) return "same";
	return "differ " + hexs(saved) + " " + show(value) + " " + show(loaded);
}

template <class TArchive>
std::string rtTarget(const std::string& target, bool stream, unsigned seed) {
	constexpr bool isCsv = std::is_same_v<TArchive, Csv::CsvArchive>;
	if (target == "rows") return roundTrip<TArchive, std::vector<RowL>>(stream, seed);
	if (target == "rows256") return roundTripAligned<TArchive>(stream, seed);
	if (target == "vchrono") return roundTrip<TArchive, std::vector<ChronoL>>(stream, seed);
	if (target == "vshape") return roundTrip<TArchive, std::vector<ShapeL>>(stream, seed);
	if constexpr (!isCsv) if (target == "vtp") {
		using TP = std::chrono::time_point<std::chrono::system_clock, std::chrono::seconds>;
		std::mt19937 g(seed); std::vector<TP> value; fillLong(g, value);
		std::string saved;
		try { if (stream) { std::ostringstream os; SaveObject<TArchive>(value, os); saved = os.str(); } else SaveObject<TArchive>(value, saved); }
		catch (const std::exception& e) { return "exc-save:" + describeException(e); }
		std::vector<TP> loaded;
		try { if (stream) { std::istringstream is(saved); LoadObject<TArchive>(loaded, is); } else LoadObject<TArchive>(loaded, saved); }
		catch (const std::exception& e) { return "exc-load:" + describeException(e) + " " + std::to_string(saved.size()) + " " + std::to_string(value.size()); }
		return loaded == value ? "same" : "differ " + std::to_string(saved.size()) + " " + std::to_string(value.size());
	}
	constexpr bool isXml = std::is_same_v<TArchive, Xml::PugiXml::XmlArchive>;
	if constexpr (!isCsv && !isXml) {
		if (target == "i32") return roundTrip<TArchive, int>(stream, seed);
		if (target == "str") return roundTrip<TArchive, std::string>(stream, seed);
	}
	if constexpr (!isCsv) {
		if (target == "vi") return roundTrip<TArchive, std::vector<int>>(stream, seed);
		if (target == "vs") return roundTrip<TArchive, std::vector<std::string>>(stream, seed);
		if (target == "vvi") return roundTrip<TArchive, std::vector<std::vector<int>>>(stream, seed);
		if (target == "msi") return roundTrip<TArchive, std::map<std::string, int>>(stream, seed);
		if (target == "outer") return roundTrip<TArchive, OuterL>(stream, seed);
		if (target == "chrono") return roundTrip<TArchive, ChronoL>(stream, seed);
		if (target == "shape") return roundTrip<TArchive, ShapeL>(stream, seed);
		if (target == "mmsi") return roundTrip<TArchive, std::multimap<std::string, int>>(stream, seed);
		if (target == "vouter") return roundTrip<TArchive, std::vector<OuterL>>(stream, seed);
	}
	throw BadOp("target");
}

Register l2("rt.any", [](const Tokens& t) -> std::string {
	if (t.size() != 5) throw BadOp("arity");
	const bool stream = t[2] == "stream";
	const unsigned seed = static_cast<unsigned>(std::stoul(t[4]));
	g_xmlDomain = t[1] == "xml";
	if (t[1] == "mp") return rtTarget<MsgPack::MsgPackArchive>(t[3], stream, seed);
	if (t[1] == "csv") return rtTarget<Csv::CsvArchive>(t[3], stream, seed);
	if (t[1] == "json") return rtTarget<Json::RapidJson::JsonArchive>(t[3], stream, seed);
	if (t[1] == "xml") return rtTarget<Xml::PugiXml::XmlArchive>(t[3], stream, seed);
	throw BadOp("archive");
});

} // namespace
