// bs.run: drive the real CBinaryStreamReader over a std::istringstream with a list of operations.
#include "harness.h"
#include <sstream>
#include "common/binary_stream_reader.h"

using namespace vh;
using BitSerializer::Detail::CBinaryStreamReader;

namespace {

std::string hexb(std::string_view v) { return hexBytes(std::string(v)); }

Register b1("bs.run", [](const Tokens& t) -> std::string {
	if (t.size() != 4) throw BadOp("arity");
	if (static_cast<size_t>(std::stoul(t[1])) != CBinaryStreamReader::chunk_size) throw BadOp("N");
	const std::string data = parseBytes(t[2]);
	std::istringstream is(data);
	CBinaryStreamReader reader(is);
	std::string out;
	std::istringstream ops(t[3]);
	std::string op;
	bool first = true;
	while (std::getline(ops, op, ';')) {
		if (!first) out.push_back(';');
		first = false;
		const auto colon = op.find(':');
		const std::string name = op.substr(0, colon);
		const size_t arg = colon == std::string::npos ? 0 : std::stoull(op.substr(colon + 1));
		char buf[8];
		auto byteStr = [&](std::optional<char> c) -> std::string {
			if (!c) return "none";
			std::snprintf(buf, sizeof buf, "%02x", static_cast<unsigned>(static_cast<unsigned char>(*c)));
			return buf;
		};
		if (name == "peek") out += byteStr(reader.PeekByte());
		else if (name == "next") { reader.GotoNextByte(); out += "ok"; }
		else if (name == "rb") out += byteStr(reader.ReadByte());
		else if (name == "solid") { auto v = reader.ReadSolidBlock(arg); out += v.data() == nullptr ? std::string("none") : "b" + hexb(v); }
		else if (name == "chunks") { auto v = reader.ReadByChunks(arg); out += v.data() == nullptr ? std::string("none") : "b" + hexb(v); }
		else if (name == "set") out += reader.SetPosition(arg) ? "true" : "false";
		else if (name == "pos") out += std::to_string(reader.GetPosition());
		else if (name == "end") out += reader.IsEnd() ? "true" : "false";
		else if (name == "failed") out += reader.IsFailed() ? "true" : "false";
		else throw BadOp("op");
	}
	return out;
});

} // namespace
