#include "harness.h"
#include "bitserializer/serialization_detail/errors_handling.h"
#include <new>

// Canonical error class of an escaped exception (messages are never compared).
std::string describeException(const std::exception& e) {
	using namespace BitSerializer;
	if (auto* v = dynamic_cast<const ValidationException*>(&e)) { (void)v; return "validation"; }
	if (auto* s = dynamic_cast<const SerializationException*>(&e)) {
		switch (s->GetErrorCode()) {
		case SerializationErrorCode::ParsingError: return "parsing";
		case SerializationErrorCode::InputOutputError: return "io";
		case SerializationErrorCode::UnsupportedEncoding: return "unsupported_encoding";
		case SerializationErrorCode::OutOfRange: return "ser_out_of_range";
		case SerializationErrorCode::Overflow: return "overflow";
		case SerializationErrorCode::MismatchedTypes: return "mismatched";
		case SerializationErrorCode::UnregisteredEnum: return "unregistered_enum";
		case SerializationErrorCode::UtfEncodingError: return "utf";
		case SerializationErrorCode::InvalidOptions: return "invalid_options";
		case SerializationErrorCode::FailedValidation: return "validation";
		default: return "ser_other";
		}
	}
	if (dynamic_cast<const std::out_of_range*>(&e)) return "out_of_range";
	if (dynamic_cast<const std::invalid_argument*>(&e)) return "invalid_argument";
	if (dynamic_cast<const std::bad_alloc*>(&e)) return "bad_alloc";
	if (dynamic_cast<const std::length_error*>(&e)) return "length_error";
	if (dynamic_cast<const std::range_error*>(&e)) return "range_error";
	if (dynamic_cast<const std::overflow_error*>(&e)) return "overflow_error";
	if (dynamic_cast<const std::runtime_error*>(&e)) return "runtime_error";
	if (dynamic_cast<const std::logic_error*>(&e)) return "logic_error";
	return "std_other";
}
