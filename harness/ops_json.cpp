// json.save / json.load : the RapidJSON archive adapter (include/bitserializer/rapidjson_archive.h) driven
// through SaveObject/LoadObject with dynamic model values (see dyn_model.h).
//
//   json.save <keys> <out> <cfg> <schema> <value>      -> ok <hex of the produced bytes> | err <class>
//   json.load <keys> <in:str|stream> <pol> <schema> <hex of the document bytes>  -> ok <value> | err <class>
#include "dyn_model.h"
#include "bitserializer/rapidjson_archive.h"
#include <sstream>
#include <tuple>
#include "bitserializer/types/std/tuple.h"

namespace vh::dyn {
template <BitSerializer::SerializeMode M, class E, class Al>
struct LongLongOk<BitSerializer::Json::RapidJson::Detail::RapidJsonArrayScope<M, E, Al>> : std::false_type {};
template <BitSerializer::SerializeMode M, class E, class Al>
struct LongLongOk<BitSerializer::Json::RapidJson::Detail::RapidJsonObjectScope<M, E, Al>> : std::false_type {};
}

using namespace vh;
using namespace vh::dyn;
using BitSerializer::Json::RapidJson::JsonArchive;

namespace {

Register j1("json.save", [](const Tokens& t) -> std::string {
	if (t.size() != 6) throw BadOp("arity");
	applyKeys(t[1]);
	BitSerializer::SerializationOptions options;
	const bool stream = applyOut(options, t[2]);
	applyCfg(options, t[3]);
	const auto schema = parseSchema(t[4]);
	Dyn value = parseValue(schema.get(), t[5]);
	std::string out;
	if (stream) {
		std::ostringstream os;
		BitSerializer::SaveObject<JsonArchive>(value, os, options);
		out = os.str();
	} else {
		BitSerializer::SaveObject<JsonArchive>(value, out, options);
	}
	return "ok " + hexBytes(out);
});

Register j2("json.load", [](const Tokens& t) -> std::string {
	if (t.size() != 6) throw BadOp("arity");
	applyKeys(t[1]);
	BitSerializer::SerializationOptions options;
	applyPol(options, t[3]);
	const auto schema = parseSchema(t[4]);
	const std::string doc = parseBytes(t[5]);
	Dyn value(schema.get());
	if (t[2] == "stream") {
		std::istringstream is(doc);
		BitSerializer::LoadObject<JsonArchive>(value, is, options);
	} else if (t[2] == "str") {
		BitSerializer::LoadObject<JsonArchive>(value, doc, options);
	} else throw BadOp("in");
	return "ok " + printValue(value);
});

// json.tuple <pol> <hex of the document bytes> : std::tuple<int32_t, int32_t> through types/std/tuple.h, which reads one array item per
// tuple element WITHOUT asking IsEnd() (relies on OutOfRange from the array scope)  -> ok <a>,<b> | err <class>
Register j3("json.tuple", [](const Tokens& t) -> std::string {
	if (t.size() != 3) throw BadOp("arity");
	BitSerializer::SerializationOptions options;
	applyPol(options, t[1]);
	const std::string doc = parseBytes(t[2]);
	std::tuple<int32_t, int32_t> value{kSentinel, kSentinel};
	BitSerializer::LoadObject<JsonArchive>(value, doc, options);
	return "ok " + std::to_string(std::get<0>(value)) + "," + std::to_string(std::get<1>(value));
});

} // namespace
