// val.load <class> <cap> <config> <doc tokens>       MismatchedTypesPolicy::Skip
// val.loadt <class> <cap> <config> <doc tokens>      MismatchedTypesPolicy::ThrowError (the library's default)
//   class : flat | nested | vec | map      (fixed C++ classes below)
//   cap   : SerializationOptions::maxValidationErrors
//   config: <field>=<v>,<v>..;<field>=..   validators per field IN DECLARATION ORDER (at most 4), `-` = none
//           fields: i s o v e (members of Flat)  n k (Nested)  items (Vec)  m (Map)
//             e is a REGISTERED ENUM (harness/valid_enum.h: ValTone { Low, Mid, High }, names "Low" "Mid" "High"), initial value Mid.
//             Validators that compile for an enum: Required, Range<ValTone> (built-in < on the enumerators; its DEFAULT message
//             prints the registered NAMES of the bounds, so only the custom-message form G!<lo>:<hi> is offered here, bounds =
//             underlying values), custom lambdas. MinSize / MaxSize (static_assert: no size()), Email / PhoneNumber (string
//             views only) do not compile for an enum -> BadOp.
//           R R!            Required (default / custom message)
//           G<lo>:<hi> G!.. Range<int64>      N<n> N!<n> MinSize      X<n> X!<n> MaxSize
//           E+ E-           Email (the generator's expectation is part of the code; the real Email functor runs)
//           P+ P-           PhoneNumber(7, 15, true, "bad phone")
//           Ce Ca Cu Cv     custom lambdas: fails when loaded and odd value/size | always | when not loaded | when the value/size is
//                           odd whatever isLoaded says (an unloaded field shows its untouched value)
//   doc   : MsgPack tokens (mini encoder, same syntax as mp.scope)
// answer: ok <state> | validation <path>=[msg|msg];<path>=[..] [<state>] | err <class>
//   messages with ' ' -> '_'; paths sorted (std::map order); the state is printed when the load ran to its end
//   (cap == 0 or fewer failing fields than the cap). Flat state: i:s:o:v:e, e = underlying value of the enum member.
//
// val.phone[z|16|32|w] <min> <max> <plus 0|1> <loaded 0|1> <string>      PhoneNumber(min, max, plus)(string, loaded), default messages
// val.email[z|16|32|w] <loaded 0|1> <string>                              Email()(string, loaded)
//   the REAL functors called directly on an arbitrary string. suffix: none = std::string (string = hex bytes, `-` empty),
//   z = const char* (the view ends at the first NUL), 16 / 32 / w = std::u16string / std::u32string / std::wstring
//   (string = dot separated hex code units).
//   answer: pass | fail:<message class>
//     PhoneNumber: dashes nested closing chars plus unclosed digits_eq_<n> digits_range_<a>_<b>;  Email: invalid
//     (the class is recognised from the default message text; any other text -> fail:unknown_message)
#include "harness.h"
#include <sstream>
#include <algorithm>
#include <cstring>
#include <optional>
#include "bitserializer/bit_serializer.h"
#include "bitserializer/msgpack_archive.h"
#include "bitserializer/types/std/vector.h"
#include "bitserializer/types/std/map.h"
#include "bitserializer/types/std/optional.h"
#include "valid_enum.h"

using namespace vh;
using namespace BitSerializer;
using BitSerializer::MsgPack::MsgPackArchive;

std::string describeException(const std::exception& e);

namespace {

void be(std::string& o, uint64_t v, int n) { for (int i = n - 1; i >= 0; --i) o.push_back(static_cast<char>((v >> (8 * i)) & 0xFF)); }

void encodeTok(std::string& o, const std::string& t) {
	if (t.empty()) throw BadOp("tok");
	if (t == "n") { o.push_back('\xc0'); return; }
	if (t == "t") { o.push_back('\xc3'); return; }
	if (t == "f") { o.push_back('\xc2'); return; }
	const std::string body = t.substr(1);
	switch (t[0]) {
	case 'i': {
		const long long v = std::stoll(body);
		if (v >= 0) {
			const auto u = static_cast<uint64_t>(v);
			if (u < 128) o.push_back(static_cast<char>(u));
			else if (u < 256) { o.push_back('\xcc'); be(o, u, 1); }
			else if (u < 65536) { o.push_back('\xcd'); be(o, u, 2); }
			else if (u < 4294967296ULL) { o.push_back('\xce'); be(o, u, 4); }
			else { o.push_back('\xcf'); be(o, u, 8); }
		} else {
			if (v >= -32) o.push_back(static_cast<char>(v));
			else if (v >= -128) { o.push_back('\xd0'); be(o, static_cast<uint64_t>(v), 1); }
			else if (v >= -32768) { o.push_back('\xd1'); be(o, static_cast<uint64_t>(v), 2); }
			else if (v >= -2147483648LL) { o.push_back('\xd2'); be(o, static_cast<uint64_t>(v), 4); }
			else { o.push_back('\xd3'); be(o, static_cast<uint64_t>(v), 8); }
		}
		return;
	}
	case 'd': { o.push_back('\xcb'); be(o, std::stoull(body, nullptr, 16), 8); return; }
	case 's': {
		const std::string s = parseBytes(body);
		if (s.size() < 32) o.push_back(static_cast<char>(0xa0 | s.size()));
		else if (s.size() < 256) { o.push_back('\xd9'); be(o, s.size(), 1); }
		else { o.push_back('\xda'); be(o, s.size(), 2); }
		o += s; return;
	}
	case 'b': {
		const std::string s = parseBytes(body);
		if (s.size() < 256) { o.push_back('\xc4'); be(o, s.size(), 1); } else { o.push_back('\xc5'); be(o, s.size(), 2); }
		o += s; return;
	}
	case 'a': { const auto n = std::stoul(body); if (n < 16) o.push_back(static_cast<char>(0x90 | n)); else { o.push_back('\xdc'); be(o, n, 2); } return; }
	case 'm': { const auto n = std::stoul(body); if (n < 16) o.push_back(static_cast<char>(0x80 | n)); else { o.push_back('\xde'); be(o, n, 2); } return; }
	}
	throw BadOp("tok");
}

std::vector<std::string> split(const std::string& s, char sep) {
	std::vector<std::string> r;
	std::istringstream is(s);
	std::string p;
	while (std::getline(is, p, sep)) r.push_back(p);
	return r;
}

// ---- runtime-configured validators: the REAL functors of validators.h, chosen per (field, slot) by the op ----
struct VSpec { char kind = 0; char sub = 0; bool custom = false; int64_t a = 0, b = 0; };
enum FieldId { F_i, F_s, F_o, F_v, F_e, F_n, F_k, F_items, F_m, F_count };
std::vector<VSpec> g_cfg[F_count];

template <class T, class = void> struct HasSize : std::false_type {};
template <class T> struct HasSize<T, std::void_t<decltype(std::declval<const T&>().size())>> : std::true_type {};

template <class T> int64_t oddness(const T& value) {
	if constexpr (std::is_same_v<T, int64_t>) return value & 1;
	else if constexpr (std::is_enum_v<T>) return static_cast<int64_t>(value) & 1;
	else if constexpr (HasSize<T>::value) return static_cast<int64_t>(value.size() & 1);
	else return 0;
}

struct Dyn {
	int field, slot;
	template <class T>
	std::optional<std::string> operator()(const T& value, bool loaded) const {
		if (static_cast<size_t>(slot) >= g_cfg[field].size()) return std::nullopt;
		const VSpec& v = g_cfg[field][slot];
		switch (v.kind) {
		case 'R': return v.custom ? Required("custom required")(value, loaded) : Required()(value, loaded);
		case 'G':
			if constexpr (std::is_same_v<T, int64_t>) return Range<int64_t>(v.a, v.b, v.custom ? "custom range" : nullptr)(value, loaded);
			else if constexpr (std::is_enum_v<T>) {
				if (!v.custom) throw BadOp("range on an enum: custom message only");
				return Range<T>(static_cast<T>(v.a), static_cast<T>(v.b), "custom range")(value, loaded);
			}
			else throw BadOp("range on a non-integer field");
		case 'N':
			if constexpr (HasSize<T>::value) return MinSize(static_cast<size_t>(v.a), v.custom ? "custom min" : nullptr)(value, loaded);
			else throw BadOp("size");
		case 'X':
			if constexpr (HasSize<T>::value) return MaxSize(static_cast<size_t>(v.a), v.custom ? "custom max" : nullptr)(value, loaded);
			else throw BadOp("size");
		case 'E':
			if constexpr (std::is_same_v<T, std::string>) return Email()(value, loaded);
			else throw BadOp("email");
		case 'P':
			if constexpr (std::is_same_v<T, std::string>) return PhoneNumber(7, 15, true, "bad phone")(value, loaded);
			else throw BadOp("phone");
		case 'C': {
			// custom lambdas with the documented signature (value, isLoaded) -> optional<string>
			if (v.sub == 'e') {
				auto fn = [](const T& val, bool isLoaded) -> std::optional<std::string> { if (isLoaded && oddness(val) != 0) return "odd"; return std::nullopt; };
				return fn(value, loaded);
			}
			if (v.sub == 'a') {
				auto fn = [](const T&, bool) -> std::optional<std::string> { return "always"; };
				return fn(value, loaded);
			}
			if (v.sub == 'v') {
				// looks at the value only (whatever isLoaded says): a field that was not loaded shows its untouched value
				auto fn = [](const T& val, bool) -> std::optional<std::string> { if (oddness(val) != 0) return "oddvalue"; return std::nullopt; };
				return fn(value, loaded);
			}
			if (v.sub != 'u') throw BadOp("custom");
			auto fn = [](const T&, bool isLoaded) -> std::optional<std::string> { if (!isLoaded) return "unloaded"; return std::nullopt; };
			return fn(value, loaded);
		}
		}
		throw BadOp("validator");
	}
};

int fieldId(const std::string& n) {
	static const char* names[] = { "i", "s", "o", "v", "e", "n", "k", "items", "m" };
	for (int i = 0; i < F_count; ++i) if (n == names[i]) return i;
	throw BadOp("field");
}

void parseConfig(const std::string& cfg) {
	for (auto& c : g_cfg) c.clear();
	if (cfg == "-") return;
	for (auto& part : split(cfg, ';')) {
		const auto eq = part.find('=');
		if (eq == std::string::npos) throw BadOp("cfg");
		auto& list = g_cfg[fieldId(part.substr(0, eq))];
		for (auto& code : split(part.substr(eq + 1), ',')) {
			if (code.empty()) throw BadOp("code");
			VSpec v;
			v.kind = code[0];
			std::string rest = code.substr(1);
			if (v.kind == 'C' || v.kind == 'E' || v.kind == 'P') { if (rest.size() != 1) throw BadOp("code"); v.sub = rest[0]; }
			else {
				if (!rest.empty() && rest[0] == '!') { v.custom = true; rest = rest.substr(1); }
				if (v.kind == 'G') {
					const auto c = rest.find(':');
					if (c == std::string::npos) throw BadOp("range");
					v.a = std::stoll(rest.substr(0, c)); v.b = std::stoll(rest.substr(c + 1));
				}
				else if (v.kind == 'N' || v.kind == 'X') v.a = std::stoll(rest);
				else if (v.kind != 'R' || !rest.empty()) throw BadOp("code");
			}
			list.push_back(v);
		}
		if (list.size() > 4) throw BadOp("slots");
	}
}

#define DYN4(f) Dyn{ f, 0 }, Dyn{ f, 1 }, Dyn{ f, 2 }, Dyn{ f, 3 }

struct Flat {
	int64_t i = 0;
	std::string s;
	std::optional<int64_t> o;
	std::vector<int64_t> v;
	ValTone e = kValToneInitial;
	template <class TArchive> void Serialize(TArchive& archive) {
		archive << KeyValue("i", i, DYN4(F_i));
		archive << KeyValue("s", s, DYN4(F_s));
		archive << KeyValue("o", o, DYN4(F_o));
		archive << KeyValue("v", v, DYN4(F_v));
		archive << KeyValue("e", e, DYN4(F_e));
	}
	std::string state() const {
		std::string r = std::to_string(i) + ":" + hexBytes(s) + ":" + (o ? std::to_string(*o) : std::string("-")) + ":";
		if (v.empty()) r += "e";
		for (size_t k = 0; k < v.size(); ++k) { if (k) r.push_back('.'); r += std::to_string(v[k]); }
		r += ":" + std::to_string(static_cast<long long>(e));
		return r;
	}
};

struct Nested {
	Flat n;
	int64_t k = 0;
	template <class TArchive> void Serialize(TArchive& archive) {
		archive << KeyValue("n", n, DYN4(F_n));
		archive << KeyValue("k", k, DYN4(F_k));
	}
	std::string state() const { return n.state() + ";" + std::to_string(k); }
};

struct Vec {
	std::vector<Flat> items;
	template <class TArchive> void Serialize(TArchive& archive) { archive << KeyValue("items", items, DYN4(F_items)); }
	std::string state() const {
		std::string r;
		for (auto& f : items) { if (!r.empty()) r.push_back(','); r += f.state(); }
		return r.empty() ? "-" : r;
	}
};

struct Map {
	std::map<std::string, Flat> m;
	template <class TArchive> void Serialize(TArchive& archive) { archive << KeyValue("m", m, DYN4(F_m)); }
	std::string state() const {
		std::string r;
		for (auto& kv : m) { if (!r.empty()) r.push_back(','); r += hexBytes(kv.first) + "=" + kv.second.state(); }
		return r.empty() ? "-" : r;
	}
};

std::string canonMsg(std::string m) { for (auto& c : m) if (c == ' ') c = '_'; return m; }

static bool g_loadFromStream = false;   // val.loads: the same load through the std::istream overload of LoadObject

template <class T>
std::string run(uint32_t cap, const std::string& doc, MismatchedTypesPolicy policy) {
	SerializationOptions options;
	options.mismatchedTypesPolicy = policy;
	options.maxValidationErrors = cap;
	T obj;
	try {
		if (g_loadFromStream) { std::istringstream is(doc); LoadObject<MsgPackArchive>(obj, is, options); }
		else LoadObject<MsgPackArchive>(obj, doc, options);
		return "ok " + obj.state();
	}
	catch (const BadOp&) { throw; }
	catch (const ValidationException& ex) {
		std::string r = "validation ";
		bool first = true;
		for (auto& kv : ex.GetValidationErrors()) {
			if (!first) r.push_back(';');
			first = false;
			r += kv.first + "=[";
			for (size_t k = 0; k < kv.second.size(); ++k) { if (k) r.push_back('|'); r += canonMsg(kv.second[k]); }
			r += "]";
		}
		if (cap == 0 || ex.GetValidationErrors().size() < cap) r += " " + obj.state();
		return r;
	}
}

Handler loadOp(MismatchedTypesPolicy policy, bool fromStream = false) {
	return [policy, fromStream](const Tokens& t) -> std::string {
		if (t.size() != 5) throw BadOp("arity");
		g_loadFromStream = fromStream;
		const auto cap = static_cast<uint32_t>(std::stoul(t[2]));
		parseConfig(t[3]);
		std::string doc;
		for (auto& tok : split(t[4], ',')) encodeTok(doc, tok);
		if (t[1] == "flat") return run<Flat>(cap, doc, policy);
		if (t[1] == "nested") return run<Nested>(cap, doc, policy);
		if (t[1] == "vec") return run<Vec>(cap, doc, policy);
		if (t[1] == "map") return run<Map>(cap, doc, policy);
		throw BadOp("class");
	};
}

Register v1("val.load", loadOp(MismatchedTypesPolicy::Skip));
Register v2("val.loadt", loadOp(MismatchedTypesPolicy::ThrowError));
Register v3("val.loads", loadOp(MismatchedTypesPolicy::Skip, true));


// ---- the text validators, called directly ----
std::string phoneClass(const std::string& m) {
	static const std::pair<const char*, const char*> fixed[] = {
		{ "Invalid phone number (dashes should be used to separate numbers)", "dashes" },
		{ "Invalid phone number (contains nested parentheses)", "nested" },
		{ "Invalid phone number (invalid closing parenthesis)", "closing" },
		{ "Invalid phone number (contains invalid characters)", "chars" },
		{ "Invalid phone number (missing initial `+`)", "plus" },
		{ "Invalid phone number (missing closing parenthesis)", "unclosed" },
	};
	for (auto& f : fixed) if (m == f.first) return f.second;
	auto number = [](const std::string& x) { return !x.empty() && std::all_of(x.begin(), x.end(), [](char c) { return c >= '0' && c <= '9'; }); };
	const std::string p1 = "Invalid phone number (must contain ", s1 = " digits)";
	if (m.size() > p1.size() + s1.size() && m.compare(0, p1.size(), p1) == 0 && m.compare(m.size() - s1.size(), s1.size(), s1) == 0) {
		const std::string n = m.substr(p1.size(), m.size() - p1.size() - s1.size());
		if (number(n)) return "digits_eq_" + n;
	}
	const std::string p2 = "Invalid phone number (the number of digits must be from ", mid = " to ", s2 = ")";
	if (m.size() > p2.size() + s2.size() && m.compare(0, p2.size(), p2) == 0 && m.back() == ')') {
		const std::string body = m.substr(p2.size(), m.size() - p2.size() - s2.size());
		const auto k = body.find(mid);
		if (k != std::string::npos && number(body.substr(0, k)) && number(body.substr(k + mid.size())))
			return "digits_range_" + body.substr(0, k) + "_" + body.substr(k + mid.size());
	}
	return "unknown_message";
}

std::string verdictOf(const std::optional<std::string>& r, bool phone) {
	if (!r) return "pass";
	if (phone) return "fail:" + phoneClass(*r);
	return *r == "Invalid email address" ? "fail:invalid" : "fail:unknown_message";
}

bool flag(const std::string& s) { if (s == "0") return false; if (s == "1") return true; throw BadOp("flag"); }

size_t sizeArg(const std::string& s) {
	if (s.empty() || s.size() > 20 || !std::all_of(s.begin(), s.end(), [](char c) { return c >= '0' && c <= '9'; })) throw BadOp("size");
	return static_cast<size_t>(std::stoull(s));
}

enum class StrKind { Str, CStr, U16, U32, W };

template <class TValidator>
std::string callOn(const TValidator& v, StrKind kind, const std::string& text, bool loaded, bool phone) {
	switch (kind) {
	case StrKind::Str: return verdictOf(v(parseBytes(text), loaded), phone);
	case StrKind::CStr: { const std::string s = parseBytes(text); return verdictOf(v(s.c_str(), loaded), phone); }
	case StrKind::U16: return verdictOf(v(toStr<std::u16string>(parseUnits(text)), loaded), phone);
	case StrKind::U32: return verdictOf(v(toStr<std::u32string>(parseUnits(text)), loaded), phone);
	case StrKind::W: return verdictOf(v(toStr<std::wstring>(parseUnits(text)), loaded), phone);
	}
	throw BadOp("kind");
}

Handler phoneOp(StrKind kind) {
	return [kind](const Tokens& t) -> std::string {
		if (t.size() != 6) throw BadOp("arity");
		return callOn(PhoneNumber(sizeArg(t[1]), sizeArg(t[2]), flag(t[3])), kind, t[5], flag(t[4]), true);
	};
}

Handler emailOp(StrKind kind) {
	return [kind](const Tokens& t) -> std::string {
		if (t.size() != 3) throw BadOp("arity");
		return callOn(Email(), kind, t[2], flag(t[1]), false);
	};
}

Register p1("val.phone", phoneOp(StrKind::Str));
Register p2("val.phonez", phoneOp(StrKind::CStr));
Register p3("val.phone16", phoneOp(StrKind::U16));
Register p4("val.phone32", phoneOp(StrKind::U32));
Register p5("val.phonew", phoneOp(StrKind::W));
Register e1("val.email", emailOp(StrKind::Str));
Register e2("val.emailz", emailOp(StrKind::CStr));
Register e3("val.email16", emailOp(StrKind::U16));
Register e4("val.email32", emailOp(StrKind::U32));
Register e5("val.emailw", emailOp(StrKind::W));

} // namespace
