// MsgPack token-level ops: drive CMsgPackStringWriter/CMsgPackStreamWriter and CMsgPackStringReader/CMsgPackStreamReader
// (namespace BitSerializer::MsgPack::Detail, src/msgpack/*.cpp) of the current tree.
//
//   mp.write <entry> <args>                      entry: nil | bool b | u8 u16 u32 u64 i8 i16 i32 i64 <decimal> | f32 <hex8> | f64 <hex16>
//                                                       | str <hex> | ts <sec> <ns> | arr <n> | map <n> | bin <n>
//        -> "<hex of string-writer output> same"  or  "<hex> diff <hex of stream-writer output>"  or  "err <class>"
//   mp.read <mem|stream> <ovf> <mis> <T> <pre> <hex>   ovf/mis: throw|skip ; T: nil bool u8 u16 u32 u64 char i8 i16 i32 i64 f32 f64 str ts arr map bin
//        the reader is positioned after <pre> leading nil bytes (0xC0, consumed with SkipValue) and performs ONE ReadValue / Read*Size
//        -> "ok <value> <pos>" | "no <pos>" (returned false) | "err <class>"
//   mp.skip <mem|stream> <pre> <hex>  -> "ok <pos>" | "err <class>"
//   mp.type <mem|stream> <pre> <hex>  -> "ok <ValueType number> <pos>" | "err <class>"
#include "harness.h"
#include "msgpack/msgpack_readers.h"
#include "msgpack/msgpack_writers.h"
#include <sstream>
#include <cstring>
#include <memory>

using namespace vh;
namespace MP = BitSerializer::MsgPack::Detail;
using BitSerializer::Detail::CBinTimestamp;

std::string describeException(const std::exception& e);   // ops_common.cpp

namespace {

uint64_t parseU(const std::string& s) {
	if (s.empty() || s[0] == '-') throw BadOp("unsigned");
	size_t n = 0; const auto v = std::stoull(s, &n, 10);
	if (n != s.size()) throw BadOp("unsigned");
	return v;
}
int64_t parseI(const std::string& s) {
	size_t n = 0; const auto v = std::stoll(s, &n, 10);
	if (n != s.size()) throw BadOp("signed");
	return v;
}
uint64_t parseHexU(const std::string& s, size_t digits) {
	if (s.size() != digits) throw BadOp("hexwidth");
	uint64_t v = 0; for (char c : s) v = v * 16 + hexval(c);
	return v;
}
template <class T> T checkedU(const std::string& s) {
	const auto v = parseU(s);
	if (v > std::numeric_limits<T>::max()) throw BadOp("range");
	return static_cast<T>(v);
}
template <class T> T checkedI(const std::string& s) {
	const auto v = parseI(s);
	if (v > std::numeric_limits<T>::max() || v < std::numeric_limits<T>::min()) throw BadOp("range");
	return static_cast<T>(v);
}

template <class TWriter>
void doWrite(TWriter& w, const Tokens& t) {
	const std::string& e = t[1];
	auto need = [&](size_t n) { if (t.size() != n) throw BadOp("arity"); };
	if (e == "nil") { need(2); w.WriteValue(nullptr); }
	else if (e == "bool") { need(3); w.WriteValue(t[2] == "1"); }
	else if (e == "u8") { need(3); w.WriteValue(checkedU<uint8_t>(t[2])); }
	else if (e == "u16") { need(3); w.WriteValue(checkedU<uint16_t>(t[2])); }
	else if (e == "u32") { need(3); w.WriteValue(checkedU<uint32_t>(t[2])); }
	else if (e == "u64") { need(3); w.WriteValue(checkedU<uint64_t>(t[2])); }
	else if (e == "i8") { need(3); w.WriteValue(checkedI<int8_t>(t[2])); }
	else if (e == "i16") { need(3); w.WriteValue(checkedI<int16_t>(t[2])); }
	else if (e == "i32") { need(3); w.WriteValue(checkedI<int32_t>(t[2])); }
	else if (e == "i64") { need(3); w.WriteValue(checkedI<int64_t>(t[2])); }
	else if (e == "f32") { need(3); const auto b = static_cast<uint32_t>(parseHexU(t[2], 8)); float f; std::memcpy(&f, &b, 4); w.WriteValue(f); }
	else if (e == "f64") { need(3); const auto b = parseHexU(t[2], 16); double f; std::memcpy(&f, &b, 8); w.WriteValue(f); }
	else if (e == "str") { need(3); const std::string s = parseBytes(t[2]); w.WriteValue(std::string_view(s)); }
	else if (e == "ts") { need(4); w.WriteValue(CBinTimestamp(checkedI<int64_t>(t[2]), checkedI<int32_t>(t[3]))); }
	else if (e == "arr") { need(3); w.BeginArray(static_cast<size_t>(parseU(t[2]))); }
	else if (e == "map") { need(3); w.BeginMap(static_cast<size_t>(parseU(t[2]))); }
	else if (e == "bin") { need(3); w.BeginBinary(static_cast<size_t>(parseU(t[2]))); }
	else throw BadOp("entry");
}

Register rw("mp.write", [](const Tokens& t) -> std::string {
	if (t.size() < 2) throw BadOp("arity");
	std::string a, b, ea, eb;
	try { MP::CMsgPackStringWriter w(a); doWrite(w, t); a = hexBytes(a); }
	catch (const BadOp&) { throw; }
	catch (const std::exception& e) { ea = describeException(e); }
	try { std::ostringstream os; MP::CMsgPackStreamWriter w(os); doWrite(w, t); b = hexBytes(os.str()); }
	catch (const BadOp&) { throw; }
	catch (const std::exception& e) { eb = describeException(e); }
	if (!ea.empty() || !eb.empty()) {
		if (ea == eb) return "err " + ea;
		return "mixed " + (ea.empty() ? a : "err:" + ea) + " " + (eb.empty() ? b : "err:" + eb);
	}
	if (a == b) return a + " same";
	return a + " diff " + b;
});

BitSerializer::OverflowNumberPolicy parseOvf(const std::string& s) {
	if (s == "throw") return BitSerializer::OverflowNumberPolicy::ThrowError;
	if (s == "skip") return BitSerializer::OverflowNumberPolicy::Skip;
	throw BadOp("ovf");
}
BitSerializer::MismatchedTypesPolicy parseMis(const std::string& s) {
	if (s == "throw") return BitSerializer::MismatchedTypesPolicy::ThrowError;
	if (s == "skip") return BitSerializer::MismatchedTypesPolicy::Skip;
	throw BadOp("mis");
}

struct ReaderBox {
	std::string data;
	BitSerializer::SerializationOptions opts;
	std::unique_ptr<std::istringstream> is;
	std::unique_ptr<MP::IMsgPackReader> rd;
	ReaderBox(const std::string& src, size_t pre, const std::string& bytes) {
		data = std::string(pre, '\xC0') + bytes;
		if (src != "mem" && src != "stream") throw BadOp("src");
		this->src = src; this->pre = pre;
	}
	void open() {
		if (src == "mem") rd = std::make_unique<MP::CMsgPackStringReader>(std::string_view(data), opts);
		else { is = std::make_unique<std::istringstream>(data); rd = std::make_unique<MP::CMsgPackStreamReader>(*is, opts); }
		for (size_t i = 0; i < pre; ++i) rd->SkipValue();
		if (rd->GetPosition() != pre) throw std::logic_error("harness: padding not consumed");
	}
	std::string src; size_t pre;
};

template <class T>
std::string readInt(MP::IMsgPackReader& r) {
	T v = static_cast<T>(0x55);   // sentinel: must stay untouched when the reader returns false
	const bool ok = r.ReadValue(v);
	std::ostringstream os;
	if (ok) {
		if constexpr (std::is_same_v<T, bool>) os << "ok " << (v ? 1 : 0);
		else if constexpr (std::is_signed_v<T>) os << "ok " << static_cast<long long>(v);
		else os << "ok " << static_cast<unsigned long long>(v);
		os << ' ' << r.GetPosition();
	}
	else {
		if (v != static_cast<T>(0x55)) return "bad target-modified-on-false";
		os << "no " << r.GetPosition();
	}
	return os.str();
}

std::string hexN(uint64_t v, int digits) {
	static const char* d = "0123456789abcdef";
	std::string s(digits, '0');
	for (int i = digits - 1; i >= 0; --i) { s[i] = d[v & 15]; v >>= 4; }
	return s;
}

Register rr("mp.read", [](const Tokens& t) -> std::string {
	if (t.size() != 7) throw BadOp("arity");
	ReaderBox box(t[1], static_cast<size_t>(parseU(t[5])), parseBytes(t[6]));
	box.opts.overflowNumberPolicy = parseOvf(t[2]);
	box.opts.mismatchedTypesPolicy = parseMis(t[3]);
	const std::string& T = t[4];
	static const char* kinds[] = { "nil", "bool", "u8", "u16", "u32", "u64", "char", "i8", "i16", "i32", "i64", "f32", "f64", "str", "ts", "arr", "map", "bin" };
	bool known = false; for (auto k : kinds) known = known || T == k;
	if (!known) throw BadOp("T");
	box.open();
	auto& r = *box.rd;
	std::ostringstream os;
	if (T == "nil") { std::nullptr_t v{}; if (r.ReadValue(v)) os << "ok - " << r.GetPosition(); else os << "no " << r.GetPosition(); return os.str(); }
	if (T == "bool") return readInt<bool>(r);
	if (T == "u8") return readInt<uint8_t>(r);
	if (T == "u16") return readInt<uint16_t>(r);
	if (T == "u32") return readInt<uint32_t>(r);
	if (T == "u64") return readInt<uint64_t>(r);
	if (T == "char") return readInt<char>(r);
	if (T == "i8") return readInt<int8_t>(r);
	if (T == "i16") return readInt<int16_t>(r);
	if (T == "i32") return readInt<int32_t>(r);
	if (T == "i64") return readInt<int64_t>(r);
	if (T == "f32") {
		float v; uint32_t b = 0x55555555u; std::memcpy(&v, &b, 4);
		if (r.ReadValue(v)) { std::memcpy(&b, &v, 4); os << "ok " << hexN(b, 8) << ' ' << r.GetPosition(); }
		else os << "no " << r.GetPosition();
		return os.str();
	}
	if (T == "f64") {
		double v; uint64_t b = 0x5555555555555555ull; std::memcpy(&v, &b, 8);
		if (r.ReadValue(v)) { std::memcpy(&b, &v, 8); os << "ok " << hexN(b, 16) << ' ' << r.GetPosition(); }
		else os << "no " << r.GetPosition();
		return os.str();
	}
	if (T == "str") {
		std::string_view v;
		if (r.ReadValue(v)) os << "ok " << hexBytes(std::string(v)) << ' ' << r.GetPosition();
		else os << "no " << r.GetPosition();
		return os.str();
	}
	if (T == "ts") {
		CBinTimestamp v(0x5A5A5A5A5ALL, 0x2AAAAAAA);	// prior content: a read must overwrite every field
		if (r.ReadValue(v)) os << "ok " << v.Seconds << ':' << v.Nanoseconds << ' ' << r.GetPosition();
		else os << "no " << r.GetPosition();
		return os.str();
	}
	size_t n = 0x5555;
	bool ok = false;
	if (T == "arr") ok = r.ReadArraySize(n);
	else if (T == "map") ok = r.ReadMapSize(n);
	else ok = r.ReadBinarySize(n);
	if (ok) os << "ok " << n << ' ' << r.GetPosition(); else os << "no " << r.GetPosition();
	return os.str();
});

Register rs("mp.skip", [](const Tokens& t) -> std::string {
	if (t.size() != 4) throw BadOp("arity");
	ReaderBox box(t[1], static_cast<size_t>(parseU(t[2])), parseBytes(t[3]));
	box.open();
	box.rd->SkipValue();
	return "ok " + std::to_string(box.rd->GetPosition());
});

Register rt("mp.type", [](const Tokens& t) -> std::string {
	if (t.size() != 4) throw BadOp("arity");
	ReaderBox box(t[1], static_cast<size_t>(parseU(t[2])), parseBytes(t[3]));
	box.open();
	const auto vt = box.rd->ReadValueType();
	return "ok " + std::to_string(static_cast<int>(vt)) + " " + std::to_string(box.rd->GetPosition());
});

} // namespace
