// wstr.rt: string values and KEYS of any width inside the real archives (C11 last clause, C19 shared buffers).
//   wstr.rt <archive:mp|json|xml|csv> <src:mem|stream> <w:8|16|32|w> <value units> <key units>
//   An object {<key>: 7, "v": <value>} whose value and key are std::basic_string<charW> is saved with SaveObject and
//   loaded back into a fresh object (prior content differs).  answer: ok <units of loaded value> <n> | exc-save:<class> | exc-load:<class>
#include "harness.h"
#include <sstream>
#include "bitserializer/bit_serializer.h"
#include "bitserializer/msgpack_archive.h"
#include "bitserializer/csv_archive.h"
#include "bitserializer/rapidjson_archive.h"
#include "bitserializer/pugixml_archive.h"
#include "bitserializer/types/std/vector.h"

using namespace vh;
using namespace BitSerializer;
std::string describeException(const std::exception& e);

namespace {

template <class TStr>
struct WObj {
	TStr key;
	TStr v;
	int n = 0;
	template <class TArchive> void Serialize(TArchive& archive) { archive << KeyValue(key, n) << KeyValue("v", v); }
};

template <class TArchive, class TStr>
std::string run(const Tokens& t) {
	const bool stream = t[2] == "stream";
	WObj<TStr> src;
	src.key = toStr<TStr>(parseUnits(t[5]));
	src.v = toStr<TStr>(parseUnits(t[4]));
	src.n = 7;
	WObj<TStr> dst;
	dst.key = src.key;
	dst.v = toStr<TStr>(parseUnits("70.72.69.6f.72"));
	dst.n = -1;
	constexpr bool isCsv = std::is_same_v<TArchive, Csv::CsvArchive>;
	std::string doc;
	try {
		if constexpr (isCsv) {
			std::vector<WObj<TStr>> rows{ src };
			if (stream) { std::ostringstream os; SaveObject<TArchive>(rows, os); doc = os.str(); } else SaveObject<TArchive>(rows, doc);
		} else {
			if (stream) { std::ostringstream os; SaveObject<TArchive>(src, os); doc = os.str(); } else SaveObject<TArchive>(src, doc);
		}
	}
	catch (const std::exception& e) { return "exc-save:" + describeException(e); }
	try {
		if constexpr (isCsv) {
			std::vector<WObj<TStr>> rows{ dst };
			if (stream) { std::istringstream is(doc); LoadObject<TArchive>(rows, is); } else LoadObject<TArchive>(rows, doc);
			if (rows.size() != 1) return "rows " + std::to_string(rows.size());
			dst = rows[0];
		} else {
			if (stream) { std::istringstream is(doc); LoadObject<TArchive>(dst, is); } else LoadObject<TArchive>(dst, doc);
		}
	}
	catch (const std::exception& e) { return "exc-load:" + describeException(e); }
	return "ok " + hexUnits(dst.v) + " " + std::to_string(dst.n);
}

template <class TStr>
std::string byArchive(const Tokens& t) {
	if (t[1] == "mp") return run<MsgPack::MsgPackArchive, TStr>(t);
	if (t[1] == "json") return run<Json::RapidJson::JsonArchive, TStr>(t);
	if (t[1] == "xml") return run<Xml::PugiXml::XmlArchive, TStr>(t);
	if (t[1] == "csv") return run<Csv::CsvArchive, TStr>(t);
	throw BadOp("archive");
}

Register w1("wstr.rt", [](const Tokens& t) -> std::string {
	if (t.size() != 6) throw BadOp("arity");
	if (t[3] == "8") return byArchive<std::string>(t);
	if (t[3] == "16") return byArchive<std::u16string>(t);
	if (t[3] == "32") return byArchive<std::u32string>(t);
	if (t[3] == "w") return byArchive<std::wstring>(t);
	throw BadOp("w");
});

} // namespace
