// CSV ops: drive Csv::Detail::{CCsvStringWriter, CCsvStreamWriter, CCsvStringReader, CCsvStreamReader}
// and BitSerializer::{LoadObject,SaveObject}<CsvArchive> of the current tree.
//
//   csv.write <sep> <withHeader> <rows>
//       rows  = "." (no rows) | row (";" row)*        row = "_" (no cells) | cell ("," cell)*
//       cell  = <key hex|-> ":" <value hex|->
//       every row: WriteValue(key, value) per cell, then NextLine(); through BOTH writers
//       answer: <string-writer result> <stream-writer result>   result = hex | "-" | E<class>
//   csv.read <mem|stream> <sep> <withHeader> <script> <text hex>
//       script = "." | req ("." req)*    req = k<n> (ReadValue(key = n-th header, or the absent key 01 when n >= #headers)) | i (ReadValue by index)
//       loop `while (!IsEnd()) { ParseNextRow(); script }`
//       answer: ok h=<cells> r=<row>;<row>… n=<GetCurrentIndex>   cells = "." | cell ("," cell)*   cell = hex | "-" | N (key not found)
//               err <class> <rows completed>  (err <class> ctor: thrown by the constructor)
//   csv.load <mem|stream> <sep> <text hex>      LoadObject<CsvArchive>(std::vector<Row3>)
//       answer: ok <row>;<row>…   (3 cells per row, N = field left untouched) | err <class>
//   csv.save <sep> <rows>                       SaveObject<CsvArchive>(std::vector<Row3>) to std::string and to std::ostream (UTF-8, no BOM)
//       rows = "." | row (";" row)*   row = 3 cells (hex|-) joined by ","
//       answer: <string result> <stream result>
#include "harness.h"
#include "bitserializer/bit_serializer.h"
#include "bitserializer/csv_archive.h"
#include "bitserializer/types/std/vector.h"
#include "csv/csv_readers.h"
#include "csv/csv_writers.h"
#include <sstream>
#include <memory>

using namespace vh;
namespace D = BitSerializer::Csv::Detail;
using BitSerializer::Csv::CsvArchive;

std::string describeException(const std::exception& e);   // ops_common.cpp

namespace {

std::vector<std::string> split(const std::string& s, char c) {
	std::vector<std::string> r;
	std::string cur;
	for (char ch : s) { if (ch == c) { r.push_back(cur); cur.clear(); } else cur.push_back(ch); }
	r.push_back(cur);
	return r;
}

char parseSep(const std::string& s) {
	const auto b = parseBytes(s);
	if (b.size() != 1) throw BadOp("sep");
	return b[0];
}

bool parseFlag(const std::string& s) {
	if (s == "1") return true;
	if (s == "0") return false;
	throw BadOp("flag");
}

using Cell = std::pair<std::string, std::string>;

std::vector<std::vector<Cell>> parseKvRows(const std::string& s) {
	std::vector<std::vector<Cell>> rows;
	if (s == ".") return rows;
	for (const auto& rt : split(s, ';')) {
		std::vector<Cell> row;
		if (rt != "_") {
			for (const auto& ct : split(rt, ',')) {
				const auto kv = split(ct, ':');
				if (kv.size() != 2) throw BadOp("cell");
				row.emplace_back(parseBytes(kv[0]), parseBytes(kv[1]));
			}
		}
		rows.push_back(std::move(row));
	}
	return rows;
}

template <class F>
std::string guarded(F f) {
	try { return f(); }
	catch (const BadOp&) { throw; }
	catch (const std::exception& e) { return "E" + describeException(e); }
}

void runWriter(BitSerializer::Csv::Detail::ICsvWriter& w, const std::vector<std::vector<Cell>>& rows) {
	w.SetEstimatedSize(rows.size());
	for (const auto& row : rows) {
		for (const auto& c : row) w.WriteValue(c.first, c.second);
		w.NextLine();
	}
}

Register w1("csv.write", [](const Tokens& t) -> std::string {
	if (t.size() != 4) throw BadOp("arity");
	const char sep = parseSep(t[1]);
	const bool withHeader = parseFlag(t[2]);
	const auto rows = parseKvRows(t[3]);
	const std::string a = guarded([&] {
		std::string out;
		D::CCsvStringWriter w(out, withHeader, sep);
		runWriter(w, rows);
		return hexBytes(out);
	});
	const std::string b = guarded([&] {
		std::ostringstream os;
		BitSerializer::StreamOptions so;
		so.writeBom = false;
		so.encoding = BitSerializer::Convert::Utf::UtfType::Utf8;
		{
			D::CCsvStreamWriter w(os, withHeader, sep, BitSerializer::Convert::Utf::UtfEncodingErrorPolicy::Skip, so);
			runWriter(w, rows);
		}
		return hexBytes(os.str());
	});
	return a + " " + b;
});

struct Req { bool byKey; size_t idx; };

std::vector<Req> parseScript(const std::string& s) {
	std::vector<Req> r;
	if (s == ".") return r;
	for (const auto& q : split(s, '.')) {
		if (q == "i") r.push_back({ false, 0 });
		else if (q.size() >= 2 && q[0] == 'k') {
			for (size_t i = 1; i < q.size(); ++i) if (q[i] < '0' || q[i] > '9') throw BadOp("script");
			r.push_back({ true, static_cast<size_t>(std::stoul(q.substr(1))) });
		}
		else throw BadOp("script");
	}
	return r;
}

std::string joinCells(const std::vector<std::string>& c) {
	if (c.empty()) return ".";
	std::string r;
	for (size_t i = 0; i < c.size(); ++i) { if (i) r.push_back(','); r += c[i]; }
	return r;
}

std::string runReader(BitSerializer::Csv::Detail::ICsvReader& rd, const std::vector<Req>& script) {
	std::vector<std::string> hdr;
	for (const auto& h : rd.GetHeaders()) hdr.push_back(hexBytes(h));
	std::string rowsOut;
	size_t done = 0;
	try {
		while (!rd.IsEnd()) {
			if (!rd.ParseNextRow()) { rowsOut += (done ? ";F" : "F"); break; }
			std::vector<std::string> cells;
			for (const auto& q : script) {
				std::string_view v;
				if (q.byKey) {
					const std::string key = q.idx < rd.GetHeaders().size() ? rd.GetHeaders()[q.idx] : std::string("\x01");
					if (rd.ReadValue(std::string_view(key), v)) cells.push_back(hexBytes(std::string(v)));
					else cells.push_back("N");
				}
				else {
					rd.ReadValue(v);
					cells.push_back(hexBytes(std::string(v)));
				}
			}
			if (done) rowsOut.push_back(';');
			rowsOut += joinCells(cells);
			++done;
		}
	}
	catch (const std::exception& e) {
		return "err " + describeException(e) + " " + std::to_string(done);
	}
	return "ok h=" + joinCells(hdr) + " r=" + (done || !rowsOut.empty() ? rowsOut : std::string("/")) + " n=" + std::to_string(rd.GetCurrentIndex());
}

Register r1("csv.read", [](const Tokens& t) -> std::string {
	if (t.size() != 6) throw BadOp("arity");
	const bool stream = t[1] == "stream";
	if (!stream && t[1] != "mem") throw BadOp("src");
	const char sep = parseSep(t[2]);
	const bool withHeader = parseFlag(t[3]);
	const auto script = parseScript(t[4]);
	const std::string text = parseBytes(t[5]);
	std::istringstream is(text);
	std::unique_ptr<D::ICsvReader> rd;
	try {
		if (stream) rd = std::make_unique<D::CCsvStreamReader>(is, withHeader, sep);
		else rd = std::make_unique<D::CCsvStringReader>(std::string_view(text), withHeader, sep);
	}
	catch (const std::exception& e) {
		return "err " + describeException(e) + " ctor";
	}
	return runReader(*rd, script);
});

// ---- archive level -------------------------------------------------------------------------
const char* const kUnset = "\x7f" "unset";
const char* const kKeyX = "x";
const char* const kKeyY = "y,;\t |z";          // every allowed separator inside a key
const char* const kKeyQ = "q\"\r\nw";          // quote and CRLF inside a key

struct Row3 {
	std::string x = kUnset, y = kUnset, q = kUnset;
	template <class TArchive>
	void Serialize(TArchive& archive) {
		archive << BitSerializer::KeyValue(kKeyX, x);
		archive << BitSerializer::KeyValue(kKeyY, y);
		archive << BitSerializer::KeyValue(kKeyQ, q);
	}
};

std::string cellOut(const std::string& s) { return s == kUnset ? std::string("N") : hexBytes(s); }

Register l1("csv.load", [](const Tokens& t) -> std::string {
	if (t.size() != 4) throw BadOp("arity");
	const bool stream = t[1] == "stream";
	if (!stream && t[1] != "mem") throw BadOp("src");
	const std::string text = parseBytes(t[3]);
	BitSerializer::SerializationOptions opt;
	opt.valuesSeparator = parseSep(t[2]);
	std::vector<Row3> rows;
	if (stream) {
		std::istringstream is(text);
		BitSerializer::LoadObject<CsvArchive>(rows, is, opt);
	}
	else {
		BitSerializer::LoadObject<CsvArchive>(rows, text, opt);
	}
	std::string out = "ok ";
	if (rows.empty()) out += "/";
	for (size_t i = 0; i < rows.size(); ++i) {
		if (i) out.push_back(';');
		out += cellOut(rows[i].x) + "," + cellOut(rows[i].y) + "," + cellOut(rows[i].q);
	}
	return out;
});

Register s1("csv.save", [](const Tokens& t) -> std::string {
	if (t.size() != 3) throw BadOp("arity");
	BitSerializer::SerializationOptions opt;
	opt.valuesSeparator = parseSep(t[1]);
	opt.streamOptions.writeBom = false;
	opt.streamOptions.encoding = BitSerializer::Convert::Utf::UtfType::Utf8;
	std::vector<Row3> rows;
	if (t[2] != ".") {
		for (const auto& rt : split(t[2], ';')) {
			const auto c = split(rt, ',');
			if (c.size() != 3) throw BadOp("row");
			Row3 r;
			r.x = parseBytes(c[0]); r.y = parseBytes(c[1]); r.q = parseBytes(c[2]);
			rows.push_back(std::move(r));
		}
	}
	const std::string a = guarded([&] {
		std::string out;
		BitSerializer::SaveObject<CsvArchive>(rows, out, opt);
		return hexBytes(out);
	});
	const std::string b = guarded([&] {
		std::ostringstream os;
		BitSerializer::SaveObject<CsvArchive>(rows, os, opt);
		return hexBytes(os.str());
	});
	return a + " " + b;
});

} // namespace
