// Chrono ops (see chrono_ops.h for the protocol): iso.print_dur, iso.rt_dur
#include "chrono_ops.h"

using namespace vh_chrono;

namespace {

Register r3("iso.print_dur", [](const Tokens& t) -> std::string {
	if (t.size() != 3) throw BadOp("arity");
	return withType(t[1], [&](auto tag) -> std::string {
		using D = typename decltype(tag)::type;
		if constexpr (canPrintDur<D>) {
			return showText(C::ToString(D(parseCount<typename D::rep>(t[2]))));
		} else { throw BadOp("not instantiable"); }
	});
});

Register r14("iso.rt_dur", [](const Tokens& t) -> std::string {
	if (t.size() != 3) throw BadOp("arity");
	return withType(t[1], [&](auto tag) -> std::string {
		using D = typename decltype(tag)::type;
		if constexpr (canPrintDur<D>) {
			const std::string text = C::ToString(D(parseCount<typename D::rep>(t[2])));
			return showText(text) + " " + secondHalf([&] { return "ok " + showCount(C::To<D>(text).count()); });
		} else { throw BadOp("not instantiable"); }
	});
});

} // namespace
