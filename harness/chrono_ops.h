// Chrono ops: drive Convert::To / Convert::ToString for time_point, duration, CRawTime, tm and the
// CBinTimestamp conversions of the current tree over a fixed table of duration instantiations.
//
//   iso.print_tp  <prec>:<rep> <count>             -> ok <text>
//   iso.parse_tp  <prec>:<rep> <w> <hex units>     -> ok <count>
//   iso.print_dur <prec>:<rep> <count>             -> ok <text>
//   iso.parse_dur <prec>:<rep> <w> <hex units>     -> ok <count>
//   iso.print_raw <time_t>                         -> ok <text>
//   iso.parse_raw <w> <hex units>                  -> ok <time_t>
//   iso.print_tm  <year> <mon> <mday> <hour> <min> <sec>   -> ok <text>
//   iso.parse_tm  <w> <hex units>                  -> ok <year> <mon> <mday> <hour> <min> <sec>
//   bin.ts        <prec>:<rep> <count>             -> ok <seconds> <nanoseconds>     (time_point -> CBinTimestamp)
//   bin.ts_back   <prec>:<rep> <seconds> <ns>      -> ok <count>                     (CBinTimestamp -> time_point)
//   bin.dur       <prec>:<rep> <count>             -> ok <seconds> <nanoseconds>     (duration -> CBinTimestamp)
//   bin.dur_back  <prec>:<rep> <seconds> <ns>      -> ok <count>
//
//   iso.rt_tp     <prec>:<rep> <count>             -> ok <text> ok <count'>          (print, then parse the printed text)
//   iso.rt_dur    <prec>:<rep> <count>             -> ok <text> ok <count'>
//   bin.rt_ts     <prec>:<rep> <count>             -> ok <seconds> <ns> ok <count'>  (to CBinTimestamp and back)
//   bin.rt_dur    <prec>:<rep> <count>             -> ok <seconds> <ns> ok <count'>
//   iso.print_days <prec>:<rep> <first day> <n>    -> ok <text>,<text>,...           (midnights of n consecutive days)
// (in the round-trip ops the second half is `err <class>` when the way back throws)
//
// prec in ns us ms s min h d; rep in i64 i32 u64 i8 (u64: time points cannot be printed at all and durations not below
// seconds - the library does not compile there); w in 8 16 32; text is printed verbatim when it is
// made of graphic ASCII only, otherwise as `hex:<bytes>`.
#pragma once
#include "harness.h"
#include "bitserializer/convert.h"
#include "bitserializer/serialization_detail/bin_timestamp.h"
#include <chrono>
#include <ctime>

namespace vh_chrono {
using namespace vh;
namespace BS = BitSerializer;
namespace C = BitSerializer::Convert;


template <class T> struct Tag { using type = T; };

template <class Rep, class F>
std::string withPeriod(const std::string& prec, F&& f) {
	using namespace std::chrono;
	if (prec == "ns") return f(Tag<duration<Rep, std::nano>>{});
	if (prec == "us") return f(Tag<duration<Rep, std::micro>>{});
	if (prec == "ms") return f(Tag<duration<Rep, std::milli>>{});
	if (prec == "s") return f(Tag<duration<Rep, std::ratio<1>>>{});
	if (prec == "min") return f(Tag<duration<Rep, std::ratio<60>>>{});
	if (prec == "h") return f(Tag<duration<Rep, std::ratio<3600>>>{});
	if (prec == "d") return f(Tag<duration<Rep, std::ratio<86400>>>{});
	throw BadOp("prec");
}

template <class F>
std::string withType(const std::string& spec, F&& f) {
	const auto c = spec.find(':');
	if (c == std::string::npos) throw BadOp("type");
	const std::string prec = spec.substr(0, c), rep = spec.substr(c + 1);
	if (rep == "i64") return withPeriod<int64_t>(prec, f);
	if (rep == "i32") return withPeriod<int32_t>(prec, f);
	if (rep == "u64") return withPeriod<uint64_t>(prec, f);
	if (rep == "i8") return withPeriod<int8_t>(prec, f);
	throw BadOp("rep");
}

// strict decimal parsing of a count into Rep (the op must name a representable value)
template <class Rep>
Rep parseCount(const std::string& s) {
	if (s.empty()) throw BadOp("count");
	if constexpr (std::is_signed_v<Rep>) {
		size_t used = 0;
		long long v;
		try { v = std::stoll(s, &used); } catch (...) { throw BadOp("count"); }
		if (used != s.size() || v < static_cast<long long>(std::numeric_limits<Rep>::min()) || v > static_cast<long long>(std::numeric_limits<Rep>::max())) throw BadOp("count");
		return static_cast<Rep>(v);
	} else {
		if (s[0] == '-') throw BadOp("count");
		size_t used = 0;
		unsigned long long v;
		try { v = std::stoull(s, &used); } catch (...) { throw BadOp("count"); }
		if (used != s.size() || v > std::numeric_limits<Rep>::max()) throw BadOp("count");
		return static_cast<Rep>(v);
	}
}

template <class Rep>
std::string showCount(Rep v) {
	if constexpr (std::is_signed_v<Rep>) return std::to_string(static_cast<long long>(v));
	else return std::to_string(static_cast<unsigned long long>(v));
}

inline std::string showText(const std::string& s) {
	bool plain = !s.empty();
	for (unsigned char c : s) if (c <= 0x20 || c >= 0x7F) plain = false;
	return plain ? "ok " + s : "ok hex:" + hexBytes(s);
}

// what the library can instantiate: time points print only for signed representations (PrintIsoUtc instantiates
// std::abs on the fraction type), durations print for unsigned ones when the period is not finer than a second
template <class T> constexpr bool canPrintTp = std::is_signed_v<typename T::rep>;
template <class T> constexpr bool canPrintDur = !(std::is_unsigned_v<typename T::rep> && std::ratio_less_v<typename T::period, std::ratio<1>>);

// The text is handed over as a VIEW into a larger buffer that continues with "T1S" (not NUL-terminated): a parser that looks past the
// end of its view changes its answer and disagrees with the model.
template <class TOut, class TStr>
TOut parseView(const std::vector<uint64_t>& u) {
	TStr s = toStr<TStr>(u);
	const size_t n = s.size();
	for (char c : { 'T', '1', 'S' }) s.push_back(static_cast<typename TStr::value_type>(c));
	return C::To<TOut>(std::basic_string_view<typename TStr::value_type>(s.data(), n));
}

template <class TOut>
TOut parseWith(const std::string& w, const std::string& units) {
	const auto u = parseUnits(units);
	if (w == "8") {
		for (auto x : u) if (x > 0xFF) throw BadOp("unit");
		return parseView<TOut, std::string>(u);
	}
	if (w == "16") {
		for (auto x : u) if (x > 0xFFFF) throw BadOp("unit");
		return parseView<TOut, std::u16string>(u);
	}
	if (w == "32") {
		for (auto x : u) if (x > 0xFFFFFFFFull) throw BadOp("unit");
		return parseView<TOut, std::u32string>(u);
	}
	throw BadOp("w");
}


inline std::string showTs(const BS::Detail::CBinTimestamp& ts) {
	return "ok " + std::to_string(static_cast<long long>(ts.Seconds)) + " " + std::to_string(static_cast<long long>(ts.Nanoseconds));
}

template <class Fn>
std::string secondHalf(Fn fn) {
	try { return fn(); }
	catch (const BadOp&) { throw; }
	catch (const std::invalid_argument&) { return "err invalid_argument"; }
	catch (const std::out_of_range&) { return "err out_of_range"; }
	catch (const std::runtime_error&) { return "err runtime_error"; }
}

} // namespace vh_chrono
