// Encoded-stream ops: DetectEncoding, CEncodedStreamReader<T, N>, CEncodedStreamWriter of the current tree.
#include "harness.h"
#include <sstream>
#include "bitserializer/conversion_detail/convert_utf.h"

using namespace vh;
namespace U = BitSerializer::Convert::Utf;

namespace {

const char* typeName(U::UtfType t) {
	switch (t) {
	case U::UtfType::Utf8: return "utf8";
	case U::UtfType::Utf16le: return "utf16le";
	case U::UtfType::Utf16be: return "utf16be";
	case U::UtfType::Utf32le: return "utf32le";
	case U::UtfType::Utf32be: return "utf32be";
	}
	return "?";
}
U::UtfType parseType(const std::string& s) {
	if (s == "utf8") return U::UtfType::Utf8;
	if (s == "utf16le") return U::UtfType::Utf16le;
	if (s == "utf16be") return U::UtfType::Utf16be;
	if (s == "utf32le") return U::UtfType::Utf32le;
	if (s == "utf32be") return U::UtfType::Utf32be;
	throw BadOp("type");
}
U::UtfEncodingErrorPolicy parsePol(const std::string& s) {
	if (s == "skip") return U::UtfEncodingErrorPolicy::Skip;
	if (s == "throw") return U::UtfEncodingErrorPolicy::ThrowError;
	throw BadOp("pol");
}

Register d1("utf.detect", [](const Tokens& t) -> std::string {
	if (t.size() != 2) throw BadOp("arity");
	// copy into an aligned, exactly sized heap buffer so that any over-read is caught by ASan
	const std::string bytes = parseBytes(t[1]);
	std::vector<char> buf(bytes.begin(), bytes.end());
	size_t off = 12345;
	const auto ty = U::DetectEncoding(std::string_view(buf.data(), buf.size()), off);
	return std::string(typeName(ty)) + " " + std::to_string(off);
});

// utf.detects <pre> <skipBom 0|1> <hex>: DetectEncoding(std::istream&) on a stream that is already positioned `pre` bytes past its
// beginning (a preamble the caller has consumed); answer: <type> <position after the call, relative to the start of the document>
Register d1s("utf.detects", [](const Tokens& t) -> std::string {
	if (t.size() != 4) throw BadOp("arity");
	const size_t pre = std::stoul(t[1]);
	const std::string bytes = parseBytes(t[3]);
	std::istringstream is(std::string(pre, '#') + bytes);
	std::string skipped(pre, '\0');
	if (pre) is.read(skipped.data(), static_cast<std::streamsize>(pre));
	const auto ty = U::DetectEncoding(is, t[2] == "1");
	const auto pos = static_cast<long long>(is.tellg());
	return std::string(typeName(ty)) + " " + (pos < 0 ? std::string("fail") : std::to_string(pos - static_cast<long long>(pre)));
});

template <class TChar, size_t N>
std::string readAll(const Tokens& t) {
	using TStr = std::basic_string<TChar>;
	const auto pol = parsePol(t[3]);
	TStr markStr; const TChar* mark = nullptr;
	if (t[4] != "null") { markStr = toStr<TStr>(parseUnits(t[4])); mark = markStr.c_str(); }
	const std::string bytes = parseBytes(t[6]);
	std::istringstream is(bytes);
	U::CEncodedStreamReader<TChar, N> reader(is, pol, mark);
	TStr out;
	std::string results;
	const size_t maxCalls = 4 * bytes.size() + 8;
	bool done = false;
	for (size_t i = 0; i < maxCalls && !done; ++i) {
		switch (reader.ReadChunk(out)) {
		case U::EncodedStreamReadResult::Success: results.push_back('S'); break;
		case U::EncodedStreamReadResult::DecodeError: results.push_back('D'); done = true; break;
		case U::EncodedStreamReadResult::EndFile: results.push_back('E'); done = true; break;
		}
	}
	if (!done) results.push_back('H');
	const char* ty = bytes.empty() ? "utf8" : typeName(reader.GetSourceUtfType());
	return std::string(ty) + " " + results + " " + hexUnits(out);
}

template <class TChar>
std::string readN(const Tokens& t, int n) {
	switch (n) {
	case 32: return readAll<TChar, 32>(t);
	case 36: return readAll<TChar, 36>(t);
	case 64: return readAll<TChar, 64>(t);
	case 256: return readAll<TChar, 256>(t);
	}
	throw BadOp("N");
}

Register d2("utf.read", [](const Tokens& t) -> std::string {
	if (t.size() != 7) throw BadOp("arity");
	const int n = std::stoi(t[1]), wo = std::stoi(t[2]);
	switch (wo) {
	case 8: return readN<char>(t, n);
	case 16: return readN<char16_t>(t, n);
	case 32: return readN<char32_t>(t, n);
	}
	throw BadOp("wo");
});

template <class TChar>
std::string writeAll(const Tokens& t) {
	using TStr = std::basic_string<TChar>;
	std::ostringstream os;
	U::CEncodedStreamWriter w(os, parseType(t[1]), t[2] == "1", parsePol(t[3]));
	std::string codes;
	std::istringstream parts(t[5]);
	std::string part;
	while (std::getline(parts, part, ';')) {
		const TStr s = toStr<TStr>(parseUnits(part));
		switch (w.Write(std::basic_string_view<TChar>(s.data(), s.size()))) {
		case U::UtfEncodingErrorCode::Success: codes.push_back('s'); break;
		case U::UtfEncodingErrorCode::InvalidSequence: codes.push_back('i'); break;
		case U::UtfEncodingErrorCode::UnexpectedEnd: codes.push_back('e'); break;
		}
	}
	return codes + " " + hexBytes(os.str());
}

Register d3("utf.write", [](const Tokens& t) -> std::string {
	if (t.size() != 6) throw BadOp("arity");
	switch (std::stoi(t[4])) {
	case 8: return writeAll<char>(t);
	case 16: return writeAll<char16_t>(t);
	case 32: return writeAll<char32_t>(t);
	}
	throw BadOp("wi");
});

} // namespace
