// UTF ops: drive Convert::Utf::{Transcode, Utf8, Utf16Le, ...}::{Decode,Encode} of the current tree.
#include "harness.h"
#include <vector>
#include "bitserializer/conversion_detail/convert_utf.h"
#include "bitserializer/convert.h"

using namespace vh;
namespace U = BitSerializer::Convert::Utf;

namespace {

U::UtfEncodingErrorPolicy parsePol(const std::string& s) {
	if (s == "skip") return U::UtfEncodingErrorPolicy::Skip;
	if (s == "throw") return U::UtfEncodingErrorPolicy::ThrowError;
	throw BadOp("pol");
}

template <class TIn, class TOut, class Fn>
std::string run(const Tokens& t, Fn fn) {
	// t: op x y pol mark out0 in
	const auto pol = parsePol(t[3]);
	TOut markStr; const typename TOut::value_type* mark = nullptr;
	if (t[4] != "null") { markStr = toStr<TOut>(parseUnits(t[4])); mark = markStr.c_str(); }
	TOut out = toStr<TOut>(parseUnits(t[5]));
	const TIn inStr = toStr<TIn>(parseUnits(t[6]));
	// the input lives in a heap block of EXACTLY its size (no terminator behind it): reading the unit at `end` is an ASan report
	const std::vector<typename TIn::value_type> in(inStr.begin(), inStr.end());
	const auto* b = in.data(); const auto* e = in.data() + in.size();
	auto res = fn(b, e, out, pol, mark);
	const char* code = res.ErrorCode == U::UtfEncodingErrorCode::Success ? "ok"
		: res.ErrorCode == U::UtfEncodingErrorCode::InvalidSequence ? "invalid" : "end";
	std::ostringstream os;
	os << code << ' ' << (res.Iterator - b) << ' ' << res.InvalidSequencesCount << ' ' << hexUnits(out);
	return os.str();
}

template <class TIn, class TOut>
std::string transcode(const Tokens& t) {
	return run<TIn, TOut>(t, [](auto b, auto e, auto& out, auto pol, auto mark) { return U::Transcode(b, e, out, pol, mark); });
}

template <class TUtf, class TIn, class TOut>
std::string dec(const Tokens& t) {
	return run<TIn, TOut>(t, [](auto b, auto e, auto& out, auto pol, auto mark) { return TUtf::Decode(b, e, out, pol, mark); });
}
template <class TUtf, class TIn, class TOut>
std::string enc(const Tokens& t) {
	return run<TIn, TOut>(t, [](auto b, auto e, auto& out, auto pol, auto mark) { return TUtf::Encode(b, e, out, pol, mark); });
}

template <class TIn>
std::string transcodeFrom(const Tokens& t, int wo) {
	switch (wo) {
	case 8: return transcode<TIn, std::string>(t);
	case 16: return transcode<TIn, std::u16string>(t);
	case 32: return transcode<TIn, std::u32string>(t);
	}
	throw BadOp("wo");
}

// the same with wchar_t / std::wstring on the 32-bit side(s): a 32-bit code unit type that is not char32_t
template <class TIn>
std::string transcodeFromW(const Tokens& t, int wo) {
	switch (wo) {
	case 8: return transcode<TIn, std::string>(t);
	case 16: return transcode<TIn, std::u16string>(t);
	case 32: return transcode<TIn, std::wstring>(t);
	}
	throw BadOp("wo");
}
Register r1w("utf.transcodew", [](const Tokens& t) -> std::string {
	if (t.size() != 7) throw BadOp("arity");
	static_assert(sizeof(wchar_t) == 4, "wchar_t is a 32-bit type on this platform");
	const int wi = std::stoi(t[1]), wo = std::stoi(t[2]);
	switch (wi) {
	case 8: return transcodeFromW<std::string>(t, wo);
	case 16: return transcodeFromW<std::u16string>(t, wo);
	case 32: return transcodeFromW<std::wstring>(t, wo);
	}
	throw BadOp("wi");
});

Register r1("utf.transcode", [](const Tokens& t) -> std::string {
	if (t.size() != 7) throw BadOp("arity");
	const int wi = std::stoi(t[1]), wo = std::stoi(t[2]);
	switch (wi) {
	case 8: return transcodeFrom<std::string>(t, wo);
	case 16: return transcodeFrom<std::u16string>(t, wo);
	case 32: return transcodeFrom<std::u32string>(t, wo);
	}
	throw BadOp("wi");
});

template <class TUtf, class TIn>
std::string decTo(const Tokens& t, int wo, bool allow8) {
	switch (wo) {
	case 8: if constexpr (sizeof(typename TIn::value_type) != 1) { return dec<TUtf, TIn, std::string>(t); } else { (void)allow8; throw BadOp("8->8"); }
	case 16: return dec<TUtf, TIn, std::u16string>(t);
	case 32: return dec<TUtf, TIn, std::u32string>(t);
	}
	throw BadOp("wo");
}

Register r2("utf.dec", [](const Tokens& t) -> std::string {
	if (t.size() != 7) throw BadOp("arity");
	const std::string& src = t[1]; const int wo = std::stoi(t[2]);
	if (src == "8") return decTo<U::Utf8, std::string>(t, wo, false);
	if (src == "16") return decTo<U::Utf16, std::u16string>(t, wo, true);
	if (src == "16le") return decTo<U::Utf16Le, std::u16string>(t, wo, true);
	if (src == "16be") return decTo<U::Utf16Be, std::u16string>(t, wo, true);
	if (src == "32") return decTo<U::Utf32, std::u32string>(t, wo, true);
	if (src == "32le") return decTo<U::Utf32Le, std::u32string>(t, wo, true);
	if (src == "32be") return decTo<U::Utf32Be, std::u32string>(t, wo, true);
	throw BadOp("src");
});

template <class TUtf, class TOut>
std::string encFrom(const Tokens& t, int wi) {
	switch (wi) {
	case 8: if constexpr (sizeof(typename TOut::value_type) != 1) { return enc<TUtf, std::string, TOut>(t); } else { throw BadOp("8->8"); }
	case 16: return enc<TUtf, std::u16string, TOut>(t);
	case 32: return enc<TUtf, std::u32string, TOut>(t);
	}
	throw BadOp("wi");
}

Register r3("utf.enc", [](const Tokens& t) -> std::string {
	if (t.size() != 7) throw BadOp("arity");
	const std::string& dst = t[1]; const int wi = std::stoi(t[2]);
	if (dst == "8") return encFrom<U::Utf8, std::string>(t, wi);
	if (dst == "16") return encFrom<U::Utf16, std::u16string>(t, wi);
	if (dst == "16le") return encFrom<U::Utf16Le, std::u16string>(t, wi);
	if (dst == "16be") return encFrom<U::Utf16Be, std::u16string>(t, wi);
	if (dst == "32") return encFrom<U::Utf32, std::u32string>(t, wi);
	if (dst == "32le") return encFrom<U::Utf32Le, std::u32string>(t, wi);
	if (dst == "32be") return encFrom<U::Utf32Be, std::u32string>(t, wi);
	throw BadOp("dst");
});

// utf.convert <wi> <wo> <form> <out0> <in>: Convert::To<TOut>(source) between the string types; form = str (std::basic_string),
// view (std::basic_string_view over a buffer of exactly the input's size), cstr (NUL-terminated pointer; inputs without U+0000 only),
// out0 != "-" passes an existing string as the init-argument (the result is appended to it). Answer: "ok <units>" | "exc"
template <class TIn, class TOut>
std::string convertStr(const Tokens& t) {
	namespace C = BitSerializer::Convert;
	const TIn in = toStr<TIn>(parseUnits(t[5]));
	const TOut out0 = toStr<TOut>(parseUnits(t[4]));
	const bool withInit = t[4] != "-";
	try {
		TOut out;
		if (t[3] == "str") {
			if constexpr (std::is_same_v<TIn, TOut>) { throw BadOp("same type"); }
			else { out = withInit ? C::To<TOut>(in, out0) : C::To<TOut>(in); }
		}
		else if (t[3] == "view") {
			const std::vector<typename TIn::value_type> buf(in.begin(), in.end());
			const std::basic_string_view<typename TIn::value_type> view(buf.data(), buf.size());
			out = withInit ? C::To<TOut>(view, out0) : C::To<TOut>(view);
		}
		else if (t[3] == "cstr") {
			if (in.find(typename TIn::value_type(0)) != TIn::npos) throw BadOp("NUL in a C string");
			out = withInit ? C::To<TOut>(in.c_str(), out0) : C::To<TOut>(in.c_str());
		}
		else throw BadOp("form");
		return "ok " + hexUnits(out);
	}
	catch (const std::invalid_argument&) { return "exc"; }
}
template <class TIn>
std::string convertFrom(const Tokens& t, int wo, bool w) {
	switch (wo) {
	case 8: return convertStr<TIn, std::string>(t);
	case 16: return convertStr<TIn, std::u16string>(t);
	case 32: return w ? convertStr<TIn, std::wstring>(t) : convertStr<TIn, std::u32string>(t);
	}
	throw BadOp("wo");
}
Register r4("utf.convert", [](const Tokens& t) -> std::string {
	if (t.size() != 6) throw BadOp("arity");
	const bool wIn = t[1] == "w", wOut = t[2] == "w";
	const int wi = wIn ? 32 : std::stoi(t[1]), wo = wOut ? 32 : std::stoi(t[2]);
	switch (wi) {
	case 8: return convertFrom<std::string>(t, wo, wOut);
	case 16: return convertFrom<std::u16string>(t, wo, wOut);
	case 32: return wIn ? convertFrom<std::wstring>(t, wo, wOut) : convertFrom<std::u32string>(t, wo, wOut);
	}
	throw BadOp("wi");
});

} // namespace
