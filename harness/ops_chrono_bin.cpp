// Chrono ops (see chrono_ops.h for the protocol): bin.ts, bin.ts_back, bin.dur, bin.dur_back, bin.rt_ts, bin.rt_dur
#include "chrono_ops.h"

using namespace vh_chrono;

namespace {

Register r9("bin.ts", [](const Tokens& t) -> std::string {
	if (t.size() != 3) throw BadOp("arity");
	return withType(t[1], [&](auto tag) -> std::string {
		using D = typename decltype(tag)::type;
		const std::chrono::time_point<std::chrono::system_clock, D> tp{ D(parseCount<typename D::rep>(t[2])) };
		BS::Detail::CBinTimestamp ts;
		BS::Detail::To(tp, ts);
		return showTs(ts);
	});
});

Register r10("bin.ts_back", [](const Tokens& t) -> std::string {
	if (t.size() != 4) throw BadOp("arity");
	return withType(t[1], [&](auto tag) -> std::string {
		using D = typename decltype(tag)::type;
		const BS::Detail::CBinTimestamp ts(parseCount<int64_t>(t[2]), parseCount<int32_t>(t[3]));
		std::chrono::time_point<std::chrono::system_clock, D> tp;
		BS::Detail::To(ts, tp);
		return "ok " + showCount(tp.time_since_epoch().count());
	});
});

Register r11("bin.dur", [](const Tokens& t) -> std::string {
	if (t.size() != 3) throw BadOp("arity");
	return withType(t[1], [&](auto tag) -> std::string {
		using D = typename decltype(tag)::type;
		BS::Detail::CBinTimestamp ts;
		BS::Detail::To(D(parseCount<typename D::rep>(t[2])), ts);
		return showTs(ts);
	});
});

Register r12("bin.dur_back", [](const Tokens& t) -> std::string {
	if (t.size() != 4) throw BadOp("arity");
	return withType(t[1], [&](auto tag) -> std::string {
		using D = typename decltype(tag)::type;
		const BS::Detail::CBinTimestamp ts(parseCount<int64_t>(t[2]), parseCount<int32_t>(t[3]));
		D d{};
		BS::Detail::To(ts, d);
		return "ok " + showCount(d.count());
	});
});

Register r15("bin.rt_ts", [](const Tokens& t) -> std::string {
	if (t.size() != 3) throw BadOp("arity");
	return withType(t[1], [&](auto tag) -> std::string {
		using D = typename decltype(tag)::type;
		using TP = std::chrono::time_point<std::chrono::system_clock, D>;
		const TP tp{ D(parseCount<typename D::rep>(t[2])) };
		BS::Detail::CBinTimestamp ts;
		BS::Detail::To(tp, ts);
		return showTs(ts) + " " + secondHalf([&] { TP back; BS::Detail::To(ts, back); return "ok " + showCount(back.time_since_epoch().count()); });
	});
});

Register r16("bin.rt_dur", [](const Tokens& t) -> std::string {
	if (t.size() != 3) throw BadOp("arity");
	return withType(t[1], [&](auto tag) -> std::string {
		using D = typename decltype(tag)::type;
		BS::Detail::CBinTimestamp ts;
		BS::Detail::To(D(parseCount<typename D::rep>(t[2])), ts);
		return showTs(ts) + " " + secondHalf([&] { D back{}; BS::Detail::To(ts, back); return "ok " + showCount(back.count()); });
	});
});

} // namespace
