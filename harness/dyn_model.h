// Dynamic model values for the JSON/XML adapter ops (json.* / xml.*).
//
// A `Dyn` is a value tree shaped by a `Schema`; it is serialized THROUGH THE REAL LIBRARY CODE:
//   leaf            -> BitSerializer::Serialize(archive, [key,] T&) for the exact C++ type T
//   [S]   (vector)  -> class with global SerializeArray -> Detail::SerializeContainer (generic_container.h)
//   {k:S} (class)   -> class with Serialize() method, fields via `archive << KeyValue(key, field)` /
//                      `archive << AttributeValue(key, field)` (key_value_proxy.h)
//   <S>   (map)     -> class with global SerializeObject -> Detail::SerializeMapImpl (generic_map.h)
//   ?S    (optional)-> std::optional<DynBox> through types/std/optional.h
// Only the run-time dispatch on the node kind is harness code.
//
// schema grammar : b i8 u8 i16 u16 i32 u32 i64 u64 ll ull f32 f64 s n | [S] | {F,F,...} | <S> | ?S
//                  F ::= [@]<keyhex>:S          (@ = XML attribute; keyhex = UTF-8 bytes in hex, '-' = empty)
// value grammar  : t f | <dec> | x<16 hex> (f64 bits) | y<8 hex> (f32 bits) | s<hex> | n | [V,..] | {V,..} (positional)
//                  | <keyhex=V,..> (sorted by key) | ~ (empty optional) | _ (not loaded, target untouched) | !V (not loaded but changed)
#pragma once
#include "harness.h"
#include <memory>
#include <optional>
#include <map>
#include <cstring>
#include <cmath>
#include "bitserializer/bit_serializer.h"
#include "bitserializer/types/std/optional.h"
#include "bitserializer/serialization_detail/generic_container.h"
#include "bitserializer/serialization_detail/generic_map.h"

namespace vh::dyn {

enum class LT { B, I8, U8, I16, U16, I32, U32, I64, U64, LL, ULL, F32, F64, S, N };

struct Schema;
struct Field { bool attr = false; std::string key; std::shared_ptr<Schema> s; };
struct Schema {
	enum K { Leaf, Vec, Cls, Map, Opt } k = Leaf;
	LT lt = LT::N;
	std::vector<Field> fields;
	std::shared_ptr<Schema> elem;
};

// ---------------------------------------------------------------------------------------------
// parsing of schema / value strings
// ---------------------------------------------------------------------------------------------
struct Cursor {
	const std::string& s; size_t i = 0;
	bool eof() const { return i >= s.size(); }
	char peek() const { return i < s.size() ? s[i] : '\0'; }
	char get() { if (i >= s.size()) throw BadOp("eof"); return s[i++]; }
	void expect(char c) { if (get() != c) throw BadOp("expect"); }
	bool take(char c) { if (peek() == c) { ++i; return true; } return false; }
	std::string word(const char* stops) { size_t j = i; while (j < s.size() && !std::strchr(stops, s[j])) ++j; std::string r = s.substr(i, j - i); i = j; return r; }
};

inline std::shared_ptr<Schema> parseSchemaAt(Cursor& c) {
	auto r = std::make_shared<Schema>();
	if (c.take('[')) { r->k = Schema::Vec; r->elem = parseSchemaAt(c); c.expect(']'); return r; }
	if (c.take('<')) { r->k = Schema::Map; r->elem = parseSchemaAt(c); c.expect('>'); return r; }
	if (c.take('?')) { r->k = Schema::Opt; r->elem = parseSchemaAt(c); return r; }
	if (c.take('{')) {
		r->k = Schema::Cls;
		if (c.take('}')) return r;
		for (;;) {
			Field f;
			f.attr = c.take('@');
			f.key = parseBytes(c.word(":"));
			c.expect(':');
			f.s = parseSchemaAt(c);
			r->fields.push_back(std::move(f));
			if (c.take('}')) break;
			c.expect(',');
		}
		return r;
	}
	const std::string w = c.word(",]}>");
	static const std::map<std::string, LT> names = {
		{"b", LT::B}, {"i8", LT::I8}, {"u8", LT::U8}, {"i16", LT::I16}, {"u16", LT::U16}, {"i32", LT::I32}, {"u32", LT::U32},
		{"i64", LT::I64}, {"u64", LT::U64}, {"ll", LT::LL}, {"ull", LT::ULL}, {"f32", LT::F32}, {"f64", LT::F64}, {"s", LT::S}, {"n", LT::N}};
	auto it = names.find(w);
	if (it == names.end()) throw BadOp("leaf type");
	r->k = Schema::Leaf; r->lt = it->second;
	return r;
}
inline std::shared_ptr<Schema> parseSchema(const std::string& s) {
	Cursor c{s};
	auto r = parseSchemaAt(c);
	if (!c.eof()) throw BadOp("schema tail");
	return r;
}

constexpr int kSentinel = 90;            // initial value of every numeric target ("fresh object")
inline const char* kSentinelStr() { return "~init~"; }

struct Dyn {
	const Schema* sch = nullptr;
	bool loaded = false;
	// leaves (exact C++ types, so that references of the right type reach the library)
	bool b = false;
	int8_t i8 = kSentinel; uint8_t u8 = kSentinel; int16_t i16 = kSentinel; uint16_t u16 = kSentinel;
	int32_t i32 = kSentinel; uint32_t u32 = kSentinel; int64_t i64 = kSentinel; uint64_t u64 = kSentinel;
	long long ll = kSentinel; unsigned long long ull = kSentinel;
	float f32 = kSentinel; double f64 = kSentinel;
	std::string s = kSentinelStr();
	std::nullptr_t n = nullptr;
	// containers
	std::vector<Dyn> items;                 // Vec elements / Cls fields (positional) / Opt content (0 or 1)
	std::map<std::string, Dyn> entries;     // Map
	Dyn() : sch(pending()) {}
	explicit Dyn(const Schema* sc) : sch(sc) { if (sc && sc->k == Schema::Cls) for (auto& f : sc->fields) items.emplace_back(f.s.get()); }
	static const Schema*& pending() { static thread_local const Schema* p = nullptr; return p; }
};

template <class T> std::string bitsHex(T v) {
	char buf[24];
	if constexpr (sizeof(T) == 8) { uint64_t u; std::memcpy(&u, &v, 8); std::snprintf(buf, sizeof buf, "x%016llx", static_cast<unsigned long long>(u)); }
	else { uint32_t u; std::memcpy(&u, &v, 4); std::snprintf(buf, sizeof buf, "y%08x", u); }
	return buf;
}

inline Dyn parseValueAt(const Schema* sc, Cursor& c) {
	Dyn d(sc);
	d.loaded = true;
	switch (sc->k) {
	case Schema::Leaf: {
		if (sc->lt == LT::B) { char ch = c.get(); if (ch != 't' && ch != 'f') throw BadOp("bool"); d.b = ch == 't'; return d; }
		if (sc->lt == LT::N) { c.expect('n'); return d; }
		if (sc->lt == LT::S) { c.expect('s'); d.s = parseBytes(c.word(",]}>")); return d; }
		if (sc->lt == LT::F64) { c.expect('x'); const uint64_t u = std::stoull(c.word(",]}>"), nullptr, 16); std::memcpy(&d.f64, &u, 8); return d; }
		if (sc->lt == LT::F32) { c.expect('y'); const uint32_t u = static_cast<uint32_t>(std::stoul(c.word(",]}>"), nullptr, 16)); std::memcpy(&d.f32, &u, 4); return d; }
		const std::string w = c.word(",]}>");
		if (w.empty()) throw BadOp("int");
		const bool neg = w[0] == '-';
		const unsigned long long mag = std::stoull(neg ? w.substr(1) : w);
		const auto sv = neg ? static_cast<long long>(0ULL - mag) : static_cast<long long>(mag);
		switch (sc->lt) {
		case LT::I8: d.i8 = static_cast<int8_t>(sv); break;   case LT::U8: d.u8 = static_cast<uint8_t>(mag); break;
		case LT::I16: d.i16 = static_cast<int16_t>(sv); break; case LT::U16: d.u16 = static_cast<uint16_t>(mag); break;
		case LT::I32: d.i32 = static_cast<int32_t>(sv); break; case LT::U32: d.u32 = static_cast<uint32_t>(mag); break;
		case LT::I64: d.i64 = sv; break;                       case LT::U64: d.u64 = mag; break;
		case LT::LL: d.ll = sv; break;                         case LT::ULL: d.ull = mag; break;
		default: throw BadOp("leaf");
		}
		return d;
	}
	case Schema::Vec:
		c.expect('[');
		if (c.take(']')) return d;
		for (;;) { d.items.push_back(parseValueAt(sc->elem.get(), c)); if (c.take(']')) break; c.expect(','); }
		return d;
	case Schema::Cls:
		c.expect('{');
		for (size_t i = 0; i < sc->fields.size(); ++i) { if (i) c.expect(','); d.items[i] = parseValueAt(sc->fields[i].s.get(), c); }
		c.expect('}');
		return d;
	case Schema::Map:
		c.expect('<');
		if (c.take('>')) return d;
		for (;;) {
			std::string k = parseBytes(c.word("="));
			c.expect('=');
			d.entries.emplace(std::move(k), parseValueAt(sc->elem.get(), c));
			if (c.take('>')) break;
			c.expect(',');
		}
		return d;
	case Schema::Opt:
		if (c.take('~')) return d;
		d.items.push_back(parseValueAt(sc->elem.get(), c));
		return d;
	}
	throw BadOp("kind");
}
inline Dyn parseValue(const Schema* sc, const std::string& s) {
	Cursor c{s};
	Dyn d = parseValueAt(sc, c);
	if (!c.eof()) throw BadOp("value tail");
	return d;
}

inline std::string leafText(const Dyn& d) {
	switch (d.sch->lt) {
	case LT::B: return d.b ? "t" : "f";
	case LT::I8: return std::to_string(d.i8);   case LT::U8: return std::to_string(d.u8);
	case LT::I16: return std::to_string(d.i16); case LT::U16: return std::to_string(d.u16);
	case LT::I32: return std::to_string(d.i32); case LT::U32: return std::to_string(d.u32);
	case LT::I64: return std::to_string(d.i64); case LT::U64: return std::to_string(d.u64);
	case LT::LL: return std::to_string(d.ll);   case LT::ULL: return std::to_string(d.ull);
	case LT::F32: return bitsHex(d.f32);        case LT::F64: return bitsHex(d.f64);
	case LT::S: return "s" + hexBytes(d.s);
	case LT::N: return "n";
	}
	return "?";
}
inline bool leafUntouched(const Dyn& d) {
	switch (d.sch->lt) {
	case LT::B: return !d.b;
	case LT::I8: return d.i8 == kSentinel;   case LT::U8: return d.u8 == kSentinel;
	case LT::I16: return d.i16 == kSentinel; case LT::U16: return d.u16 == kSentinel;
	case LT::I32: return d.i32 == kSentinel; case LT::U32: return d.u32 == kSentinel;
	case LT::I64: return d.i64 == kSentinel; case LT::U64: return d.u64 == kSentinel;
	case LT::LL: return d.ll == kSentinel;   case LT::ULL: return d.ull == kSentinel;
	case LT::F32: return d.f32 == kSentinel; case LT::F64: return d.f64 == kSentinel;
	case LT::S: return d.s == kSentinelStr();
	case LT::N: return true;
	}
	return false;
}
inline bool untouched(const Dyn& d) {
	if (d.loaded) return false;
	switch (d.sch->k) {
	case Schema::Leaf: return leafUntouched(d);
	case Schema::Vec: return d.items.empty();
	case Schema::Cls: for (auto& c : d.items) if (!untouched(c)) return false; return true;
	case Schema::Map: return d.entries.empty();
	case Schema::Opt: return d.items.empty();
	}
	return false;
}
inline std::string printValue(const Dyn& d) {
	if (!d.loaded && d.sch->k != Schema::Opt) {
		if (untouched(d)) return "_";
	}
	std::string r = (!d.loaded && d.sch->k != Schema::Opt) ? "!" : "";
	switch (d.sch->k) {
	case Schema::Leaf: return r + leafText(d);
	case Schema::Vec: { r += "["; for (size_t i = 0; i < d.items.size(); ++i) { if (i) r += ","; r += printValue(d.items[i]); } return r + "]"; }
	case Schema::Cls: { r += "{"; for (size_t i = 0; i < d.items.size(); ++i) { if (i) r += ","; r += printValue(d.items[i]); } return r + "}"; }
	case Schema::Map: { r += "<"; bool first = true; for (auto& e : d.entries) { if (!first) r += ","; first = false; r += hexBytes(e.first) + "=" + printValue(e.second); } return r + ">"; }
	case Schema::Opt: return d.items.empty() ? "~" : printValue(d.items[0]);
	}
	return "?";
}

// ---------------------------------------------------------------------------------------------
// serialization through the library
// ---------------------------------------------------------------------------------------------
// scopes whose SerializeValue does not compile for `long long` (RapidJSON array/object scopes: ambiguous GenericValue ctor)
template <class A> struct LongLongOk : std::true_type {};

inline bool& useCStrKeys() { static bool v = true; return v; }

struct DynVec {
	Dyn* d;
	using value_type = Dyn;
	auto begin() { return d->items.begin(); }
	auto end() { return d->items.end(); }
	[[nodiscard]] size_t size() const { return d->items.size(); }
	void resize(size_t n) { d->items.resize(n, Dyn(d->sch->elem.get())); }
	Dyn& emplace_back() { d->items.emplace_back(d->sch->elem.get()); return d->items.back(); }
};
template <class A> void SerializeArray(A& a, DynVec& v) { BitSerializer::Detail::SerializeContainer(a, v); }

struct DynMap : std::map<std::string, Dyn> {
	const Schema* elem = nullptr;
	using base = std::map<std::string, Dyn>;
	// the std::map insertion interface a map loader may legitimately use (Dyn has no default constructor: the element schema is supplied here)
	base::iterator try_emplace(base::const_iterator hint, std::string&& k) { return base::try_emplace(hint, std::move(k), Dyn(elem)); }
	base::iterator try_emplace(base::const_iterator hint, const std::string& k) { return base::try_emplace(hint, k, Dyn(elem)); }
	std::pair<base::iterator, bool> try_emplace(std::string&& k) { return base::try_emplace(std::move(k), Dyn(elem)); }
	std::pair<base::iterator, bool> try_emplace(const std::string& k) { return base::try_emplace(k, Dyn(elem)); }
	Dyn& operator[](const std::string& k) { return base::try_emplace(k, Dyn(elem)).first->second; }
	Dyn& operator[](std::string&& k) { return base::try_emplace(std::move(k), Dyn(elem)).first->second; }
};
template <class A> void SerializeObject(A& a, DynMap& m) { BitSerializer::Detail::SerializeMapImpl(a, m); }

struct DynCls {
	Dyn* d;
	template <class A> void Serialize(A& a) {
		using namespace BitSerializer;
		for (size_t i = 0; i < d->sch->fields.size(); ++i) {
			const Field& f = d->sch->fields[i];
			Dyn& c = d->items[i];
			if (f.attr) {
				if constexpr (can_serialize_attribute_v<A>) {
					if (useCStrKeys()) a << AttributeValue(f.key.c_str(), c); else a << AttributeValue(f.key, c);
				}
				else throw BadOp("attributes are not supported by this archive");
			}
			else {
				if (useCStrKeys()) a << KeyValue(f.key.c_str(), c); else a << KeyValue(f.key, c);
			}
		}
	}
};

struct DynBox {
	std::shared_ptr<Dyn> p;
	DynBox() : p(std::make_shared<Dyn>(Dyn::pending())) {}
	explicit DynBox(const Dyn& v) : p(std::make_shared<Dyn>(v)) {}
};

template <class A, class... K> bool serializeLeaf(A& a, Dyn& d, K&&... key) {
	auto go = [&](auto& ref) -> bool {
		using T = std::decay_t<decltype(ref)>;
		if constexpr (sizeof...(K) == 0) {
			if constexpr (BitSerializer::can_serialize_value_v<A, T> || (std::is_same_v<T, std::string> && BitSerializer::can_serialize_value_v<A, typename A::string_view_type>))
				return BitSerializer::Serialize(a, ref);
			else throw BadOp("value without key is not supported on this level");
		} else {
			if constexpr ((BitSerializer::can_serialize_value_with_key_v<A, T, K> && ...) || (std::is_same_v<T, std::string> && (BitSerializer::can_serialize_value_with_key_v<A, typename A::string_view_type, K> && ...)))
				return BitSerializer::Serialize(a, std::forward<K>(key)..., ref);
			else throw BadOp("value with key is not supported on this level");
		}
	};
	switch (d.sch->lt) {
	case LT::B: return go(d.b);
	case LT::I8: return go(d.i8);   case LT::U8: return go(d.u8);
	case LT::I16: return go(d.i16); case LT::U16: return go(d.u16);
	case LT::I32: return go(d.i32); case LT::U32: return go(d.u32);
	case LT::I64: return go(d.i64); case LT::U64: return go(d.u64);
	case LT::LL: if constexpr (LongLongOk<A>::value) return go(d.ll); else throw BadOp("long long does not compile on this level");
	case LT::ULL: if constexpr (LongLongOk<A>::value) return go(d.ull); else throw BadOp("long long does not compile on this level");
	case LT::F32: return go(d.f32); case LT::F64: return go(d.f64);
	case LT::S: return go(d.s);
	case LT::N: return go(d.n);
	}
	throw BadOp("leaf");
}

template <class A, class... K> bool serializeDyn(A& a, Dyn& d, K&&... key);

// found by ADL from key_value_proxy.h / generic_container.h / generic_map.h / optional.h
template <class A, std::enable_if_t<BitSerializer::is_archive_scope_v<A>, int> = 0>
bool Serialize(A& a, Dyn& d) { return serializeDyn(a, d); }
template <class A, class K, std::enable_if_t<BitSerializer::is_archive_scope_v<A>, int> = 0>
bool Serialize(A& a, K&& key, Dyn& d) { return serializeDyn(a, d, std::forward<K>(key)); }
template <class A, std::enable_if_t<BitSerializer::is_archive_scope_v<A>, int> = 0>
bool Serialize(A& a, DynBox& b) { return serializeDyn(a, *b.p); }
template <class A, class K, std::enable_if_t<BitSerializer::is_archive_scope_v<A>, int> = 0>
bool Serialize(A& a, K&& key, DynBox& b) { return serializeDyn(a, *b.p, std::forward<K>(key)); }

template <class A, class... K> bool serializeDyn(A& a, Dyn& d, K&&... key) {
	bool r = false;
	constexpr bool keyed = sizeof...(K) != 0;
	switch (d.sch->k) {
	case Schema::Leaf: r = serializeLeaf(a, d, std::forward<K>(key)...); break;
	case Schema::Vec: {
		DynVec w{&d};
		if constexpr (keyed ? (BitSerializer::can_serialize_array_with_key_v<A, K> && ...) : BitSerializer::can_serialize_array_v<A>)
			r = BitSerializer::Serialize(a, std::forward<K>(key)..., w);
		else throw BadOp("array is not supported on this level");
		break;
	}
	case Schema::Cls: {
		DynCls w{&d};
		if constexpr (keyed ? (BitSerializer::can_serialize_object_with_key_v<A, K> && ...) : BitSerializer::can_serialize_object_v<A>)
			r = BitSerializer::Serialize(a, std::forward<K>(key)..., w);
		else throw BadOp("object is not supported on this level");
		break;
	}
	case Schema::Map: {
		DynMap w; w.elem = d.sch->elem.get();
		if constexpr (A::IsSaving()) for (auto& e : d.entries) w.emplace(e.first, e.second);
		if constexpr (keyed ? (BitSerializer::can_serialize_object_with_key_v<A, K> && ...) : BitSerializer::can_serialize_object_v<A>)
			r = BitSerializer::Serialize(a, std::forward<K>(key)..., w);
		else throw BadOp("object is not supported on this level");
		if constexpr (A::IsLoading()) { d.entries.clear(); for (auto& e : w) d.entries.emplace(e.first, e.second); }
		break;
	}
	case Schema::Opt: {
		std::optional<DynBox> o;
		if constexpr (A::IsSaving()) { if (!d.items.empty()) o.emplace(d.items[0]); }
		Dyn::pending() = d.sch->elem.get();
		if constexpr (keyed ? (BitSerializer::can_serialize_value_with_key_v<A, std::nullptr_t, K> && ...) : BitSerializer::can_serialize_value_v<A, std::nullptr_t>)
			r = BitSerializer::Serialize(a, std::forward<K>(key)..., o);
		else throw BadOp("optional is not supported on this level");
		if constexpr (A::IsLoading()) { d.items.clear(); if (o) d.items.push_back(*o->p); }
		break;
	}
	}
	d.loaded = r;
	return r;
}

// ---------------------------------------------------------------------------------------------
// option tokens shared by json.* and xml.*
// ---------------------------------------------------------------------------------------------
// out  : str | utf8|utf16le|utf16be|utf32le|utf32be ':' 0|1 (BOM)
// cfg  : compact | pretty:<char code hex>:<num>
// pol  : two letters, overflow then mismatched, t = ThrowError, s = Skip
// keys : kc (const char* keys) | ks (std::string keys)
inline void applyCfg(BitSerializer::SerializationOptions& o, const std::string& cfg) {
	if (cfg == "compact") { o.formatOptions.enableFormat = false; return; }
	if (cfg.rfind("pretty:", 0) != 0) throw BadOp("cfg");
	const auto p2 = cfg.find(':', 7);
	if (p2 == std::string::npos) throw BadOp("cfg");
	o.formatOptions.enableFormat = true;
	o.formatOptions.paddingChar = static_cast<char>(std::stoul(cfg.substr(7, p2 - 7), nullptr, 16));
	o.formatOptions.paddingCharNum = static_cast<uint16_t>(std::stoul(cfg.substr(p2 + 1)));
}
inline bool applyOut(BitSerializer::SerializationOptions& o, const std::string& out) {   // returns true for stream output
	using BitSerializer::Convert::Utf::UtfType;
	if (out == "str") return false;
	const auto p = out.find(':');
	if (p == std::string::npos) throw BadOp("out");
	const std::string e = out.substr(0, p);
	o.streamOptions.encoding = e == "utf8" ? UtfType::Utf8 : e == "utf16le" ? UtfType::Utf16le : e == "utf16be" ? UtfType::Utf16be
		: e == "utf32le" ? UtfType::Utf32le : e == "utf32be" ? UtfType::Utf32be : throw BadOp("enc");
	o.streamOptions.writeBom = out.substr(p + 1) == "1";
	return true;
}
inline void applyPol(BitSerializer::SerializationOptions& o, const std::string& pol) {
	using namespace BitSerializer;
	if (pol.size() != 2) throw BadOp("pol");
	o.overflowNumberPolicy = pol[0] == 't' ? OverflowNumberPolicy::ThrowError : pol[0] == 's' ? OverflowNumberPolicy::Skip : throw BadOp("pol");
	o.mismatchedTypesPolicy = pol[1] == 't' ? MismatchedTypesPolicy::ThrowError : pol[1] == 's' ? MismatchedTypesPolicy::Skip : throw BadOp("pol");
}
inline void applyKeys(const std::string& k) {
	if (k == "kc") useCStrKeys() = true; else if (k == "ks") useCStrKeys() = false; else throw BadOp("keys");
}

} // namespace vh::dyn
