// cont.load <kind> <mode> <prior> <doc tokens>
//   Loads a MsgPack document (given as TOKENS, encoded here by an independent mini-encoder, the same
//   syntax as mp.scope) with BitSerializer::LoadObject<MsgPackArchive> under MismatchedTypesPolicy::Skip
//   into (1) a target pre-populated with <prior> and (2) a fresh (value-initialised) target.
//   answer: <populated result>|<fresh result>       each: canonical value, or !<error class>
// cont.csv <kind> <prior> <header> <rows>
//   vector/deque/list/forward_list<Row{a,b}> loaded from CSV text (CsvArchive reports no estimated size).
//
// canonical values
//   sequences / sets: v,v,v            (`-` = empty; sets, multisets and unordered variants sorted)
//   maps            : k:v,k:v          (sorted by key, then by value; std::multimap: iteration order)
//   nested          : inner vector = v.v.v (`e` = empty)
//   optional / ptr  : v | `-` (empty)
//   string          : hex bytes | `-`
#include "harness.h"
#include <algorithm>
#include <cstring>
#include "bitserializer/bit_serializer.h"
#include "bitserializer/msgpack_archive.h"
#include "bitserializer/csv_archive.h"
#include "bitserializer/types/std/vector.h"
#include "bitserializer/types/std/deque.h"
#include "bitserializer/types/std/list.h"
#include "bitserializer/types/std/forward_list.h"
#include "bitserializer/types/std/array.h"
#include "bitserializer/types/std/valarray.h"
#include "bitserializer/types/std/queue.h"
#include "bitserializer/types/std/stack.h"
#include "bitserializer/types/std/bitset.h"
#include "bitserializer/types/std/set.h"
#include "bitserializer/types/std/unordered_set.h"
#include "bitserializer/types/std/map.h"
#include "bitserializer/types/std/unordered_map.h"
#include "bitserializer/types/std/optional.h"
#include "bitserializer/types/std/memory.h"

using namespace vh;
using namespace BitSerializer;
using BitSerializer::MsgPack::MsgPackArchive;
using BitSerializer::Csv::CsvArchive;

std::string describeException(const std::exception& e);

namespace {

// ---- independent mini MsgPack encoder (token syntax of harness/ops_mpscope.cpp) ----
void be(std::string& o, uint64_t v, int n) { for (int i = n - 1; i >= 0; --i) o.push_back(static_cast<char>((v >> (8 * i)) & 0xFF)); }

void encodeTok(std::string& o, const std::string& t) {
	if (t.empty()) throw BadOp("tok");
	if (t == "n") { o.push_back('\xc0'); return; }
	if (t == "t") { o.push_back('\xc3'); return; }
	if (t == "f") { o.push_back('\xc2'); return; }
	const std::string body = t.substr(1);
	switch (t[0]) {
	case 'i': {
		const long long v = std::stoll(body);
		if (v >= 0) {
			const auto u = static_cast<uint64_t>(v);
			if (u < 128) o.push_back(static_cast<char>(u));
			else if (u < 256) { o.push_back('\xcc'); be(o, u, 1); }
			else if (u < 65536) { o.push_back('\xcd'); be(o, u, 2); }
			else if (u < 4294967296ULL) { o.push_back('\xce'); be(o, u, 4); }
			else { o.push_back('\xcf'); be(o, u, 8); }
		} else {
			if (v >= -32) o.push_back(static_cast<char>(v));
			else if (v >= -128) { o.push_back('\xd0'); be(o, static_cast<uint64_t>(v), 1); }
			else if (v >= -32768) { o.push_back('\xd1'); be(o, static_cast<uint64_t>(v), 2); }
			else if (v >= -2147483648LL) { o.push_back('\xd2'); be(o, static_cast<uint64_t>(v), 4); }
			else { o.push_back('\xd3'); be(o, static_cast<uint64_t>(v), 8); }
		}
		return;
	}
	case 'd': { o.push_back('\xcb'); be(o, std::stoull(body, nullptr, 16), 8); return; }
	case 's': {
		const std::string s = parseBytes(body);
		if (s.size() < 32) o.push_back(static_cast<char>(0xa0 | s.size()));
		else if (s.size() < 256) { o.push_back('\xd9'); be(o, s.size(), 1); }
		else { o.push_back('\xda'); be(o, s.size(), 2); }
		o += s; return;
	}
	case 'b': {
		const std::string s = parseBytes(body);
		if (s.size() < 256) { o.push_back('\xc4'); be(o, s.size(), 1); } else { o.push_back('\xc5'); be(o, s.size(), 2); }
		o += s; return;
	}
	case 'a': { const auto n = std::stoul(body); if (n < 16) o.push_back(static_cast<char>(0x90 | n)); else { o.push_back('\xdc'); be(o, n, 2); } return; }
	case 'm': { const auto n = std::stoul(body); if (n < 16) o.push_back(static_cast<char>(0x80 | n)); else { o.push_back('\xde'); be(o, n, 2); } return; }
	}
	throw BadOp("tok");
}

std::string encodeDoc(const std::string& toks) {
	std::string doc;
	std::istringstream is(toks);
	std::string tok;
	while (std::getline(is, tok, ',')) encodeTok(doc, tok);
	return doc;
}

// ---- parsing of the prior content ----
std::vector<std::string> split(const std::string& s, char sep) {
	std::vector<std::string> r;
	std::istringstream is(s);
	std::string p;
	while (std::getline(is, p, sep)) r.push_back(p);
	return r;
}
int64_t toInt(const std::string& s) {
	size_t pos = 0;
	long long v;
	try { v = std::stoll(s, &pos); } catch (const std::exception&) { throw BadOp("int"); }
	if (pos != s.size()) throw BadOp("int");
	return v;
}
std::vector<int64_t> parseInts(const std::string& s, char sep = ',', const char* empty = "-") {
	std::vector<int64_t> r;
	if (s == empty) return r;
	for (auto& p : split(s, sep)) r.push_back(toInt(p));
	return r;
}
using Inner = std::vector<int64_t>;
std::vector<Inner> parseNested(const std::string& s) {
	std::vector<Inner> r;
	if (s == "-") return r;
	for (auto& p : split(s, ',')) r.push_back(parseInts(p, '.', "e"));
	return r;
}
std::vector<std::pair<int64_t, std::string>> parsePairs(const std::string& s) {
	std::vector<std::pair<int64_t, std::string>> r;
	if (s == "-") return r;
	for (auto& p : split(s, ',')) {
		const auto c = p.find(':');
		if (c == std::string::npos) throw BadOp("pair");
		r.emplace_back(toInt(p.substr(0, c)), p.substr(c + 1));
	}
	return r;
}

// ---- canonical output ----
std::string fmt(int64_t v) { return std::to_string(v); }
std::string fmt(bool v) { return v ? "1" : "0"; }
std::string fmt(const Inner& v) {
	if (v.empty()) return "e";
	std::string r;
	for (size_t i = 0; i < v.size(); ++i) { if (i) r.push_back('.'); r += std::to_string(v[i]); }
	return r;
}
template <class It>
std::string fmtSeq(It b, It e) {
	std::string r;
	for (auto it = b; it != e; ++it) { if (!r.empty()) r.push_back(','); r += fmt(*it); }
	return r.empty() ? "-" : r;
}
template <class C> std::string fmtSeq(const C& c) { return fmtSeq(std::begin(c), std::end(c)); }
template <class C> std::string fmtSorted(const C& c) {
	std::vector<typename C::value_type> v(c.begin(), c.end());
	std::sort(v.begin(), v.end());
	return fmtSeq(v);
}
template <class M> std::string fmtMap(const M& m) {
	std::vector<std::pair<int64_t, typename M::mapped_type>> v(m.begin(), m.end());
	std::sort(v.begin(), v.end());
	std::string r;
	for (auto& kv : v) { if (!r.empty()) r.push_back(','); r += std::to_string(kv.first) + ":" + fmt(kv.second); }
	return r.empty() ? "-" : r;
}

SerializationOptions skipOptions() {
	SerializationOptions o;
	o.mismatchedTypesPolicy = MismatchedTypesPolicy::Skip;
	o.overflowNumberPolicy = OverflowNumberPolicy::ThrowError;
	return o;
}

template <class T, class F>
std::string loadOne(T& target, const std::string& doc, F&& print) {
	const SerializationOptions options = skipOptions();
	try {
		LoadObject<MsgPackArchive>(target, doc, options);
		return print(target);
	}
	catch (const BadOp&) { throw; }
	catch (const std::exception& e) { return "!" + describeException(e); }
}

template <class T, class F>
std::string loadBoth(T& populated, T& fresh, const std::string& doc, F&& print) {
	const std::string a = loadOne(populated, doc, print);
	const std::string b = loadOne(fresh, doc, print);
	return a + "|" + b;
}

// a map loaded with a non-default MapLoadMode (the mode is a parameter of SerializeObject for maps)
template <class TMap>
struct MapWithMode {
	TMap& map;
	MapLoadMode mode;
	template <class TArchive> void Serialize(TArchive& archive) { BitSerializer::SerializeObject(archive, map, mode); }
};

template <class TMap, class F>
std::string loadMap(const std::string& mode, TMap& populated, TMap& fresh, const std::string& doc, F&& print) {
	if (mode == "clean") return loadBoth(populated, fresh, doc, print);
	const MapLoadMode m = mode == "exist" ? MapLoadMode::OnlyExistKeys : mode == "update" ? MapLoadMode::UpdateKeys
		: mode == "cleanw" ? MapLoadMode::Clean : throw BadOp("mode");
	MapWithMode<TMap> wp{ populated, m }, wf{ fresh, m };
	auto pr = [&print](const MapWithMode<TMap>& w) { return print(w.map); };
	return loadBoth(wp, wf, doc, pr);
}

template <class TCont>
std::string seqKind(const std::vector<int64_t>& prior, const std::string& doc) {
	TCont populated(prior.begin(), prior.end()), fresh;
	return loadBoth(populated, fresh, doc, [](const TCont& c) { return fmtSeq(c); });
}

template <class TSet>
std::string setKind(const std::vector<int64_t>& prior, const std::string& doc) {
	TSet populated(prior.begin(), prior.end()), fresh;
	return loadBoth(populated, fresh, doc, [](const TSet& c) { return fmtSorted(c); });
}

template <class TPtr>
std::string fmtPtr(const TPtr& p) { return p ? fmt(*p) : std::string("-"); }

Register c1("cont.load", [](const Tokens& t) -> std::string {
	if (t.size() != 5) throw BadOp("arity");
	const std::string &kind = t[1], &mode = t[2], &ps = t[3];
	const std::string doc = encodeDoc(t[4]);
	const bool isMap = kind == "map" || kind == "unordered_map" || kind == "map_of_vector";
	if (!isMap && mode != "-") throw BadOp("mode");

	if (kind == "vector") return seqKind<std::vector<int64_t>>(parseInts(ps), doc);
	if (kind == "deque") return seqKind<std::deque<int64_t>>(parseInts(ps), doc);
	if (kind == "list") return seqKind<std::list<int64_t>>(parseInts(ps), doc);
	if (kind == "forward_list") return seqKind<std::forward_list<int64_t>>(parseInts(ps), doc);
	if (kind == "set") return setKind<std::set<int64_t>>(parseInts(ps), doc);
	if (kind == "multiset") return setKind<std::multiset<int64_t>>(parseInts(ps), doc);
	if (kind == "unordered_set") return setKind<std::unordered_set<int64_t>>(parseInts(ps), doc);
	if (kind == "unordered_multiset") return setKind<std::unordered_multiset<int64_t>>(parseInts(ps), doc);
	if (kind == "array3") {
		const auto p = parseInts(ps);
		if (p.size() != 3) throw BadOp("array3 prior");
		std::array<int64_t, 3> populated{ p[0], p[1], p[2] }, fresh{};
		return loadBoth(populated, fresh, doc, [](const std::array<int64_t, 3>& c) { return fmtSeq(c); });
	}
	if (kind == "valarray") {
		const auto p = parseInts(ps);
		std::valarray<int64_t> populated(p.data(), p.size()), fresh;
		return loadBoth(populated, fresh, doc, [](const std::valarray<int64_t>& c) { return fmtSeq(std::begin(c), std::end(c)); });
	}
	if (kind == "vector_bool") {
		const auto p = parseInts(ps);
		std::vector<bool> populated, fresh;
		for (auto v : p) populated.push_back(v != 0);
		return loadBoth(populated, fresh, doc, [](const std::vector<bool>& c) {
			std::string r;
			for (bool b : c) { if (!r.empty()) r.push_back(','); r += fmt(b); }
			return r.empty() ? std::string("-") : r;
		});
	}
	if (kind == "bitset8") {
		const auto p = parseInts(ps);
		if (p.size() != 8) throw BadOp("bitset8 prior");
		std::bitset<8> populated, fresh;
		for (size_t i = 0; i < 8; ++i) populated.set(i, p[i] != 0);
		return loadBoth(populated, fresh, doc, [](const std::bitset<8>& c) {
			std::string r;
			for (size_t i = 0; i < 8; ++i) { if (i) r.push_back(','); r += fmt(c.test(i)); }
			return r;
		});
	}
	if (kind == "queue") {
		const auto p = parseInts(ps);
		std::queue<int64_t> populated(std::deque<int64_t>(p.begin(), p.end())), fresh;
		return loadBoth(populated, fresh, doc, [](const std::queue<int64_t>& c) { return fmtSeq(Detail::GetBaseContainer(c)); });
	}
	if (kind == "stack") {
		const auto p = parseInts(ps);
		std::stack<int64_t> populated(std::deque<int64_t>(p.begin(), p.end())), fresh;
		return loadBoth(populated, fresh, doc, [](const std::stack<int64_t>& c) { return fmtSeq(Detail::GetBaseContainer(c)); });
	}
	if (kind == "priority_queue") {
		// the generator passes priors in descending order: such an array already is a max-heap, make_heap keeps it
		const auto p = parseInts(ps);
		std::priority_queue<int64_t> populated(std::less<int64_t>(), std::vector<int64_t>(p.begin(), p.end())), fresh;
		return loadBoth(populated, fresh, doc, [](const std::priority_queue<int64_t>& c) { return fmtSeq(Detail::GetBaseContainer(c)); });
	}
	if (kind == "map" || kind == "unordered_map") {
		const auto p = parsePairs(ps);
		if (kind == "map") {
			std::map<int64_t, int64_t> populated, fresh;
			for (auto& kv : p) populated[kv.first] = toInt(kv.second);
			return loadMap(mode, populated, fresh, doc, [](const std::map<int64_t, int64_t>& m) { return fmtMap(m); });
		}
		std::unordered_map<int64_t, int64_t> populated, fresh;
		for (auto& kv : p) populated[kv.first] = toInt(kv.second);
		return loadMap(mode, populated, fresh, doc, [](const std::unordered_map<int64_t, int64_t>& m) { return fmtMap(m); });
	}
	if (kind == "map_of_vector") {
		std::map<int64_t, Inner> populated, fresh;
		for (auto& kv : parsePairs(ps)) populated[kv.first] = parseInts(kv.second, '.', "e");
		return loadMap(mode, populated, fresh, doc, [](const std::map<int64_t, Inner>& m) { return fmtMap(m); });
	}
	if (kind == "multimap") {
		std::multimap<int64_t, int64_t> populated, fresh;
		for (auto& kv : parsePairs(ps)) populated.emplace(kv.first, toInt(kv.second));
		// std::multimap: printed in iteration order (the order of elements with equivalent keys is observable)
		return loadBoth(populated, fresh, doc, [](const std::multimap<int64_t, int64_t>& m) {
			std::string r;
			for (auto& kv : m) { if (!r.empty()) r.push_back(','); r += std::to_string(kv.first) + ":" + fmt(kv.second); }
			return r.empty() ? std::string("-") : r;
		});
	}
	if (kind == "unordered_multimap") {
		std::unordered_multimap<int64_t, int64_t> populated, fresh;
		for (auto& kv : parsePairs(ps)) populated.emplace(kv.first, toInt(kv.second));
		return loadBoth(populated, fresh, doc, [](const std::unordered_multimap<int64_t, int64_t>& m) { return fmtMap(m); });
	}
	if (kind == "optional") {
		std::optional<int64_t> populated, fresh;
		if (ps != "-") populated = toInt(ps);
		return loadBoth(populated, fresh, doc, [](const std::optional<int64_t>& o) { return fmtPtr(o); });
	}
	if (kind == "unique_ptr") {
		std::unique_ptr<int64_t> populated, fresh;
		if (ps != "-") populated = std::make_unique<int64_t>(toInt(ps));
		return loadBoth(populated, fresh, doc, [](const std::unique_ptr<int64_t>& o) { return fmtPtr(o); });
	}
	if (kind == "shared_ptr") {
		std::shared_ptr<int64_t> populated, fresh;
		if (ps != "-") populated = std::make_shared<int64_t>(toInt(ps));
		return loadBoth(populated, fresh, doc, [](const std::shared_ptr<int64_t>& o) { return fmtPtr(o); });
	}
	if (kind == "optional_vector") {
		std::optional<Inner> populated, fresh;
		if (ps != "-") populated = parseInts(ps, '.', "e");
		return loadBoth(populated, fresh, doc, [](const std::optional<Inner>& o) { return fmtPtr(o); });
	}
	if (kind == "string") {
		std::string populated = parseBytes(ps), fresh;
		return loadBoth(populated, fresh, doc, [](const std::string& s) { return hexBytes(s); });
	}
	if (kind == "vector_of_vector") {
		std::vector<Inner> populated = parseNested(ps), fresh;
		return loadBoth(populated, fresh, doc, [](const std::vector<Inner>& c) { return fmtSeq(c); });
	}
	throw BadOp("kind");
});

// ---- CSV: vector of a class, no estimated size ----
struct Row {
	int64_t a = 0, b = 0;
	template <class TArchive> void Serialize(TArchive& archive) {
		archive << KeyValue("a", a);
		archive << KeyValue("b", b);
	}
};

template <class C>
std::string fmtRows(const C& rows) {
	std::string r;
	for (auto& row : rows) { if (!r.empty()) r.push_back(','); r += std::to_string(row.a) + ":" + std::to_string(row.b); }
	return r.empty() ? "-" : r;
}

template <class C>
std::string csvBoth(const std::vector<Row>& prior, const std::string& csv) {
	C populated(prior.begin(), prior.end()), fresh;
	const SerializationOptions options = skipOptions();
	auto one = [&](C& target) -> std::string {
		try { LoadObject<CsvArchive>(target, csv, options); return fmtRows(target); }
		catch (const BadOp&) { throw; }
		catch (const std::exception& e) { return "!" + describeException(e); }
	};
	const std::string a = one(populated);
	const std::string b = one(fresh);
	return a + "|" + b;
}

// cont.csv <kind vector|deque|list|forward_list> <prior a:b,a:b|-> <header h:h|-> <rows c:c;c:c|->
//   cell `_` = empty cell, header `-` = no text at all
Register c2("cont.csv", [](const Tokens& t) -> std::string {
	if (t.size() != 5) throw BadOp("arity");
	std::vector<Row> prior;
	for (auto& kv : parsePairs(t[2])) { Row r; r.a = kv.first; r.b = toInt(kv.second); prior.push_back(r); }
	std::string csv;
	if (t[3] != "-") {
		bool first = true;
		for (auto& h : split(t[3], ':')) { if (!first) csv.push_back(','); first = false; csv += h; }
		csv += "\r\n";
		if (t[4] != "-") {
			for (auto& row : split(t[4], ';')) {
				first = true;
				for (auto& c : split(row, ':')) { if (!first) csv.push_back(','); first = false; if (c != "_") csv += c; }
				csv += "\r\n";
			}
		}
	}
	if (t[1] == "vector") return csvBoth<std::vector<Row>>(prior, csv);
	if (t[1] == "deque") return csvBoth<std::deque<Row>>(prior, csv);
	if (t[1] == "list") return csvBoth<std::list<Row>>(prior, csv);
	if (t[1] == "forward_list") return csvBoth<std::forward_list<Row>>(prior, csv);
	throw BadOp("kind");
});

} // namespace
