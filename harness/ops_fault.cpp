// Fault enumeration ops (C20, C02): truncation, k-th allocation failure, stream failure at byte offset,
// library-detected mid-save errors — on fixed scenarios over the real archives.
//   fault.trunc <archive> <src> <hex doc> <k>      load the first k bytes   (archive mpx: document with members the class does not
//                                                   know; mptup: array longer than the target tuple — truncation is then noticed
//                                                   only by the skip loops of the scope destructors; mpbin: byte containers
//                                                   = `bin` values read through CMsgPackReadBinaryScope, the last one into a
//                                                   SHORTER fixed-size array: the scope is destroyed partly read while the
//                                                   OutOfRange exception unwinds and its destructor skips the rest)
//   fault.alloc <scenario> <k>                      the k-th operator new during the scenario throws bad_alloc
//   fault.io <scenario> <offset>                    the stream buffer fails at byte <offset>
//   fault.midsave <scenario>                        value/consistency error detected midway through a save
// answer: ok | exc:<class> [n=<count>]   (terminate / crashes / leaks are detected by check.py)
#include "harness.h"
#include <fstream>
#include <sstream>
#include <streambuf>
#include <map>
#include <optional>
#include <atomic>
#include <new>
#include <cstdlib>
#include "bitserializer/bit_serializer.h"
#include "bitserializer/msgpack_archive.h"
#include "bitserializer/csv_archive.h"
#include "bitserializer/rapidjson_archive.h"
#include "bitserializer/pugixml_archive.h"
#include "bitserializer/types/std/vector.h"
#include "bitserializer/types/std/map.h"
#include "bitserializer/types/std/optional.h"
#include "bitserializer/types/std/tuple.h"
#include "bitserializer/types/std/array.h"

using namespace vh;
using namespace BitSerializer;
std::string describeException(const std::exception& e);

// ---- allocation fault injection --------------------------------------------------------------------
static std::atomic<long> g_allocCountdown{-1};   // < 0: disabled; fails when it reaches 0
static std::atomic<long> g_allocSeen{0};
// largest single request seen since the last reset (memory "out of proportion to the size of the input", C02)
static std::atomic<std::size_t> g_maxAllocRequest{0};
namespace vh { void allocWatchReset() { g_maxAllocRequest = 0; } std::size_t allocWatchMax() { return g_maxAllocRequest.load(); } }
static void* fi_alloc(std::size_t n) {
	if (n > g_maxAllocRequest.load(std::memory_order_relaxed)) g_maxAllocRequest.store(n, std::memory_order_relaxed);
	if (g_allocCountdown.load() >= 0) {
		++g_allocSeen;
		if (g_allocCountdown.fetch_sub(1) == 0) throw std::bad_alloc();
	}
	void* p = std::malloc(n ? n : 1);
	if (!p) throw std::bad_alloc();
	return p;
}
void* operator new(std::size_t n) { return fi_alloc(n); }
void* operator new[](std::size_t n) { return fi_alloc(n); }
void operator delete(void* p) noexcept { std::free(p); }
void operator delete[](void* p) noexcept { std::free(p); }
void operator delete(void* p, std::size_t) noexcept { std::free(p); }
void operator delete[](void* p, std::size_t) noexcept { std::free(p); }

extern "C" int __lsan_do_recoverable_leak_check();

namespace {

struct Inner {
	int a = 0; std::string s;
	template <class TArchive> void Serialize(TArchive& archive) { archive << KeyValue("a", a) << KeyValue("s", s); }
};
struct Outer {
	int id = 0; std::string name; std::vector<int> nums; Inner inner; std::map<std::string, int> m; std::optional<int> opt;
	template <class TArchive> void Serialize(TArchive& archive) {
		archive << KeyValue("id", id) << KeyValue("name", name) << KeyValue("nums", nums) << KeyValue("inner", inner)
			<< KeyValue("m", m) << KeyValue("opt", opt);
	}
};
struct Row {
	int x = 0; std::string y; double z = 0;
	template <class TArchive> void Serialize(TArchive& archive) { archive << KeyValue("x", x) << KeyValue("y", y) << KeyValue("z", z); }
};
// a row type whose width depends on the value: triggers the CSV "number of values differs" error mid-save
struct RaggedRow {
	int x = 0;
	template <class TArchive> void Serialize(TArchive& archive) {
		archive << KeyValue("x", x);
		if (x % 2) { int extra = 1; archive << KeyValue("extra", extra); }
	}
};

// Outer with one more member at the end that the class being loaded (Outer) does not know: whatever is missing from it is
// noticed only when ~CMsgPackReadObjectScope skips the members that were not read (the deferred-error path)
struct OuterX {
	Outer base; std::vector<std::string> zz{ "one", std::string(40, 'z') }; std::map<std::string, int> zm{ {"k", 3} };
	template <class TArchive> void Serialize(TArchive& archive) {
		archive << KeyValue("id", base.id) << KeyValue("name", base.name) << KeyValue("nums", base.nums) << KeyValue("inner", base.inner)
			<< KeyValue("m", base.m) << KeyValue("opt", base.opt) << KeyValue("zz", zz) << KeyValue("zm", zm);
	}
};
// an array longer than the tuple it is loaded into (Skip policy): the surplus elements are skipped by ~CMsgPackReadArrayScope
using LongTuple = std::tuple<int, std::string, int, std::string, std::vector<int>, std::string>;
using ShortTuple = std::tuple<int, std::string>;
// byte containers (`bin 8`, `bin 16` crossing the 256-byte chunk of the stream reader, an array of `bin`); the document is
// saved from BinSource and loaded into BinTarget whose last member is a fixed-size array SHORTER than the stored `bin`
struct BinSource {
	std::vector<uint8_t> blob{ 1, 2, 3, 0xC1, 0xFF, 0 };
	std::vector<char> big = std::vector<char>(300, '\x92');
	std::vector<std::vector<unsigned char>> blobs{ { 10, 20, 30, 40, 50 }, {}, { 0xC4, 0x01, 0x00 }, { 7 } };
	int mid = 77;
	std::vector<uint8_t> fixed{ 9, 8, 7, 6, 5, 4, 3, 2 };
	template <class TArchive> void Serialize(TArchive& archive) {
		archive << KeyValue("blob", blob) << KeyValue("big", big) << KeyValue("blobs", blobs) << KeyValue("mid", mid) << KeyValue("fixed", fixed);
	}
};
struct BinTarget {
	std::vector<uint8_t> blob; std::vector<char> big; std::vector<std::vector<unsigned char>> blobs; int mid = 0;
	std::array<uint8_t, 3> fixed{};
	template <class TArchive> void Serialize(TArchive& archive) {
		archive << KeyValue("blob", blob) << KeyValue("big", big) << KeyValue("blobs", blobs) << KeyValue("mid", mid) << KeyValue("fixed", fixed);
	}
};

LongTuple sampleLongTuple() { return { 7, "seven", 70000, std::string(40, 't'), { 1, 2, 300 }, "end" }; }

Outer sampleOuter() {
	Outer o; o.id = 42; o.name = std::string(40, 'n'); o.nums = { 1, 2, 300, 70000 }; o.inner.a = -7; o.inner.s = "inner string value";
	o.m = { {"k1", 1}, {"key-two", 2} }; o.opt = 5; return o;
}
std::vector<Row> sampleRows() { return { {1, "a,b", 1.5}, {2, "quote\"d", -2.25}, {3, std::string(300, 'r'), 0} }; }

static bool g_faultTriggered = false;

// streambuf over a string that throws from `failAt` on
class FailingInBuf : public std::streambuf {
public:
	FailingInBuf(std::string data, size_t failAt) : mData(std::move(data)), mFailAt(failAt) {}
protected:
	int_type underflow() override {
		if (mPos >= mFailAt) { g_faultTriggered = true; throw std::ios_base::failure("injected read failure"); }
		if (mPos >= mData.size()) return traits_type::eof();
		mCh = mData[mPos++];
		setg(&mCh, &mCh, &mCh + 1);
		return traits_type::to_int_type(mCh);
	}
private:
	std::string mData; size_t mFailAt; size_t mPos = 0; char mCh = 0;
};
// output streambuf that refuses everything from byte `failAt` on
class FailingOutBuf : public std::streambuf {
public:
	explicit FailingOutBuf(size_t failAt) : mFailAt(failAt) {}
protected:
	int_type overflow(int_type ch) override {
		if (mCount >= mFailAt) { g_faultTriggered = true; return traits_type::eof(); }
		++mCount; return ch;
	}
	std::streamsize xsputn(const char* s, std::streamsize n) override {
		std::streamsize done = 0;
		while (done < n && mCount < mFailAt) { ++mCount; ++done; }
		if (done < n) g_faultTriggered = true;
		(void)s; return done;
	}
private:
	size_t mFailAt; size_t mCount = 0;
};

template <class Fn>
std::string guarded(Fn fn) {
	try { fn(); return "ok"; }
	catch (const std::exception& e) { return "exc:" + describeException(e); }
	catch (...) { return "exc:nonstd"; }
}

SerializationOptions skipOpts() {
	SerializationOptions o; o.mismatchedTypesPolicy = MismatchedTypesPolicy::Skip; return o;
}

std::string runScenario(const std::string& sc, size_t ioFailAt, bool ioFault) {
	static const std::string mpDoc = SaveObject<MsgPack::MsgPackArchive>(sampleOuter());
	static const std::string jsonDoc = SaveObject<Json::RapidJson::JsonArchive>(sampleOuter());
	static const std::string xmlDoc = SaveObject<Xml::PugiXml::XmlArchive>(sampleOuter());
	static const std::string csvDoc = SaveObject<Csv::CsvArchive>(sampleRows());
	const size_t none = static_cast<size_t>(-1);
	const size_t at = ioFault ? ioFailAt : none;
	if (sc == "mp_load_mem") return guarded([&] { Outer o; LoadObject<MsgPack::MsgPackArchive>(o, mpDoc); });
	if (sc == "mp_load_stream") return guarded([&] { Outer o; FailingInBuf b(mpDoc, at); std::istream is(&b); LoadObject<MsgPack::MsgPackArchive>(o, is); });
	if (sc == "mp_save_mem") return guarded([&] { auto o = sampleOuter(); std::string out; SaveObject<MsgPack::MsgPackArchive>(o, out); });
	if (sc == "mp_save_stream") return guarded([&] { auto o = sampleOuter(); FailingOutBuf b(at); std::ostream os(&b); SaveObject<MsgPack::MsgPackArchive>(o, os); });
	if (sc == "json_load_mem") return guarded([&] { Outer o; LoadObject<Json::RapidJson::JsonArchive>(o, jsonDoc); });
	if (sc == "json_load_stream") return guarded([&] { Outer o; FailingInBuf b(jsonDoc, at); std::istream is(&b); LoadObject<Json::RapidJson::JsonArchive>(o, is); });
	if (sc == "json_save_mem") return guarded([&] { auto o = sampleOuter(); std::string out; SaveObject<Json::RapidJson::JsonArchive>(o, out); });
	if (sc == "json_save_stream") return guarded([&] { auto o = sampleOuter(); FailingOutBuf b(at); std::ostream os(&b); SaveObject<Json::RapidJson::JsonArchive>(o, os); });
	if (sc == "xml_load_mem") return guarded([&] { Outer o; LoadObject<Xml::PugiXml::XmlArchive>(o, xmlDoc); });
	if (sc == "xml_load_stream") return guarded([&] { Outer o; FailingInBuf b(xmlDoc, at); std::istream is(&b); LoadObject<Xml::PugiXml::XmlArchive>(o, is); });
	if (sc == "xml_save_mem") return guarded([&] { auto o = sampleOuter(); std::string out; SaveObject<Xml::PugiXml::XmlArchive>(o, out); });
	if (sc == "xml_save_stream") return guarded([&] { auto o = sampleOuter(); FailingOutBuf b(at); std::ostream os(&b); SaveObject<Xml::PugiXml::XmlArchive>(o, os); });
	if (sc == "csv_load_mem") return guarded([&] { std::vector<Row> r; LoadObject<Csv::CsvArchive>(r, csvDoc); });
	if (sc == "csv_load_stream") return guarded([&] { std::vector<Row> r; FailingInBuf b(csvDoc, at); std::istream is(&b); LoadObject<Csv::CsvArchive>(r, is); });
	if (sc == "csv_save_mem") return guarded([&] { auto r = sampleRows(); std::string out; SaveObject<Csv::CsvArchive>(r, out); });
	if (sc == "csv_save_stream") return guarded([&] { auto r = sampleRows(); FailingOutBuf b(at); std::ostream os(&b); SaveObject<Csv::CsvArchive>(r, os); });
	throw BadOp("scenario");
}

Register f1("fault.trunc", [](const Tokens& t) -> std::string {
	if (t.size() != 5) throw BadOp("arity");
	std::string full;
	if (t[3] == "@") {
		if (t[1] == "mp") full = SaveObject<MsgPack::MsgPackArchive>(sampleOuter());
		else if (t[1] == "mpvec") full = SaveObject<MsgPack::MsgPackArchive>(std::vector<std::vector<int>>{ {1, 2, 3}, {}, {70000, -5} });
		else if (t[1] == "mpx") { OuterX x; x.base = sampleOuter(); full = SaveObject<MsgPack::MsgPackArchive>(x); }
		else if (t[1] == "mptup") full = SaveObject<MsgPack::MsgPackArchive>(sampleLongTuple());
		else if (t[1] == "mpbin") full = SaveObject<MsgPack::MsgPackArchive>(BinSource{});
		else if (t[1] == "csv") full = SaveObject<Csv::CsvArchive>(sampleRows());
		else if (t[1] == "json") full = SaveObject<Json::RapidJson::JsonArchive>(sampleOuter());
		else if (t[1] == "xml") full = SaveObject<Xml::PugiXml::XmlArchive>(sampleOuter());
		else throw BadOp("archive");
	} else full = parseBytes(t[3]);
	const size_t k = std::stoul(t[4]);
	if (k >= full.size()) return "skip";
	const std::string doc = full.substr(0, k);
	const bool stream = t[2] == "stream";
	auto opts = skipOpts();
	return guarded([&] {
		std::istringstream is(doc);
		if (t[1] == "mp" || t[1] == "mpx") { Outer o; if (stream) LoadObject<MsgPack::MsgPackArchive>(o, is, opts); else LoadObject<MsgPack::MsgPackArchive>(o, doc, opts); }
		else if (t[1] == "mpvec") { std::vector<std::vector<int>> o; if (stream) LoadObject<MsgPack::MsgPackArchive>(o, is, opts); else LoadObject<MsgPack::MsgPackArchive>(o, doc, opts); }
		else if (t[1] == "mpbin") { BinTarget o; if (stream) LoadObject<MsgPack::MsgPackArchive>(o, is, opts); else LoadObject<MsgPack::MsgPackArchive>(o, doc, opts); }
		else if (t[1] == "mptup") { ShortTuple o; if (stream) LoadObject<MsgPack::MsgPackArchive>(o, is, opts); else LoadObject<MsgPack::MsgPackArchive>(o, doc, opts); }
		else if (t[1] == "csv") { std::vector<Row> r; if (stream) LoadObject<Csv::CsvArchive>(r, is, opts); else LoadObject<Csv::CsvArchive>(r, doc, opts); }
		else if (t[1] == "json") { Outer o; if (stream) LoadObject<Json::RapidJson::JsonArchive>(o, is, opts); else LoadObject<Json::RapidJson::JsonArchive>(o, doc, opts); }
		else if (t[1] == "xml") { Outer o; if (stream) LoadObject<Xml::PugiXml::XmlArchive>(o, is, opts); else LoadObject<Xml::PugiXml::XmlArchive>(o, doc, opts); }
		else throw BadOp("archive");
	});
});

Register f2("fault.alloc", [](const Tokens& t) -> std::string {
	if (t.size() != 3) throw BadOp("arity");
	(void)runScenario(t[1], 0, false);        // warm up the function-local statics without faults
	g_allocSeen = 0;
	g_allocCountdown = std::stol(t[2]);
	std::string r;
	try { r = runScenario(t[1], 0, false); } catch (...) { g_allocCountdown = -1; throw; }
	g_allocCountdown = -1;
	return r + " n=" + std::to_string(g_allocSeen.load());
});

Register f3("fault.io", [](const Tokens& t) -> std::string {
	if (t.size() != 3) throw BadOp("arity");
	g_faultTriggered = false;
	const std::string r = runScenario(t[1], std::stoul(t[2]), true);
	return g_faultTriggered ? r : std::string("skip");
});

// fault.option <csv_load_mem|csv_load_stream|csv_save_mem|csv_save_stream> <separator code>: an option the library rejects
// (library-detected error raised while the root scope is being set up); leak check right after the call
Register f5("fault.option", [](const Tokens& t) -> std::string {
	if (t.size() != 3) throw BadOp("arity");
	static const std::string csvDoc = SaveObject<Csv::CsvArchive>(sampleRows());
	SerializationOptions o;
	o.valuesSeparator = static_cast<char>(std::stoi(t[2]));
	std::string r;
	if (t[1] == "csv_load_mem") r = guarded([&] { std::vector<Row> v; LoadObject<Csv::CsvArchive>(v, csvDoc, o); });
	else if (t[1] == "csv_load_stream") r = guarded([&] { std::vector<Row> v; std::istringstream is(csvDoc); LoadObject<Csv::CsvArchive>(v, is, o); });
	else if (t[1] == "csv_save_mem") r = guarded([&] { auto v = sampleRows(); std::string out; SaveObject<Csv::CsvArchive>(v, out, o); });
	else if (t[1] == "csv_save_stream") r = guarded([&] { auto v = sampleRows(); std::ostringstream os; SaveObject<Csv::CsvArchive>(v, os, o); });
	else throw BadOp("scenario");
	if (__lsan_do_recoverable_leak_check()) r += " LEAK";
	return r;
});

// fault.preset <mp|json|xml|csv> <fail|eof|unopened>: the output stream is ALREADY in a failed state (failbit without badbit: a file that
// could not be opened, a stream left at eof/fail by earlier use): nothing can be written, the save must report it
Register f7("fault.preset", [](const Tokens& t) -> std::string {
	if (t.size() != 3) throw BadOp("arity");
	auto run = [&](std::ostream& os) -> std::string {
		if (t[1] == "mp") return guarded([&] { auto o = sampleOuter(); SaveObject<MsgPack::MsgPackArchive>(o, os); });
		if (t[1] == "json") return guarded([&] { auto o = sampleOuter(); SaveObject<Json::RapidJson::JsonArchive>(o, os); });
		if (t[1] == "xml") return guarded([&] { auto o = sampleOuter(); SaveObject<Xml::PugiXml::XmlArchive>(o, os); });
		if (t[1] == "csv") return guarded([&] { auto r = sampleRows(); SaveObject<Csv::CsvArchive>(r, os); });
		throw BadOp("archive");
	};
	if (t[2] == "fail") { std::ostringstream os; os.setstate(std::ios::failbit); return run(os); }
	if (t[2] == "eof") { std::ostringstream os; os.setstate(std::ios::eofbit | std::ios::failbit); return run(os); }
	if (t[2] == "unopened") { std::ofstream os("/nonexistent-directory/for-the-harness/out.bin", std::ios::binary); return run(os); }
	throw BadOp("state");
});

Register f4("fault.midsave", [](const Tokens& t) -> std::string {
	if (t.size() != 2) throw BadOp("arity");
	if (t[1] == "csv_ragged_mem") return guarded([] { std::vector<RaggedRow> r{ {2}, {3} }; std::string out; SaveObject<Csv::CsvArchive>(r, out); });
	if (t[1] == "csv_ragged_stream") return guarded([] { std::vector<RaggedRow> r{ {2}, {3} }; std::ostringstream os; SaveObject<Csv::CsvArchive>(r, os); });
	if (t[1] == "json_nan") return guarded([] { std::vector<double> v{ 1.0, std::numeric_limits<double>::quiet_NaN() }; std::string out; SaveObject<Json::RapidJson::JsonArchive>(v, out); });
	throw BadOp("scenario");
});

// fault.defer <class>...   (or `-` for none): SerializationContext::DeferError called once per class, in that order, then
// RethrowDeferredError() twice — the deferred-error mechanism of the scope destructors on its own.
// answer: <outcome of the first rethrow> <outcome of the second>
Register f6("fault.defer", [](const Tokens& t) -> std::string {
	if (t.size() < 2) throw BadOp("arity");
	SerializationOptions options;
	SerializationContext ctx(options);
	for (size_t i = 1; i < t.size(); ++i) {
		const std::string& c = t[i];
		if (c == "-") continue;
		std::exception_ptr p;
		if (c == "parsing") p = std::make_exception_ptr(ParsingException("deferred"));
		else if (c == "ser_out_of_range") p = std::make_exception_ptr(SerializationException(SerializationErrorCode::OutOfRange, "deferred"));
		else if (c == "mismatched") p = std::make_exception_ptr(SerializationException(SerializationErrorCode::MismatchedTypes, "deferred"));
		else if (c == "overflow") p = std::make_exception_ptr(SerializationException(SerializationErrorCode::Overflow, "deferred"));
		else if (c == "utf") p = std::make_exception_ptr(SerializationException(SerializationErrorCode::UtfEncodingError, "deferred"));
		else if (c == "bad_alloc") p = std::make_exception_ptr(std::bad_alloc());
		else if (c == "out_of_range") p = std::make_exception_ptr(std::out_of_range("deferred"));
		else throw BadOp("class");
		ctx.DeferError(p);
	}
	const std::string first = guarded([&] { ctx.RethrowDeferredError(); });
	const std::string second = guarded([&] { ctx.RethrowDeferredError(); });
	return first + " " + second;
});

} // namespace
