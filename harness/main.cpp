#include "harness.h"
#include <iostream>
#include <exception>
#include <cstdlib>
#include <unistd.h>
#include <typeinfo>
#include <cxxabi.h>

namespace vh {
std::map<std::string, Handler>& registry() { static std::map<std::string, Handler> r; return r; }
}

static void onTerminate() {
	// an exception escaped a destructor / noexcept function: report and leave
	const char msg[] = "terminate\n";
	(void)!write(1, msg, sizeof(msg) - 1);
	_exit(3);
}

std::string describeException(const std::exception& e);   // ops_common.cpp

int main() {
	std::set_terminate(onTerminate);
	std::ios::sync_with_stdio(false);
	std::string line;
	while (std::getline(std::cin, line)) {
		vh::Tokens toks;
		{
			std::istringstream is(line);
			std::string t;
			while (is >> t) toks.push_back(t);
		}
		std::string answer;
		if (toks.empty()) { answer = "bad-op"; }
		else {
			auto it = vh::registry().find(toks[0]);
			if (it == vh::registry().end()) answer = "bad-op";
			else {
				try { answer = it->second(toks); }
				catch (const vh::BadOp&) { answer = "bad-op"; }
				catch (const std::exception& e) { answer = "err " + describeException(e); }
				catch (...) { answer = "err nonstd"; }
			}
		}
		std::cout << answer << "\n" << std::flush;
	}
	return 0;
}
